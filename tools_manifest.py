#!/usr/bin/env python3
"""Regenerates MANIFEST.json from the table below (keeps it valid and in one place)."""
import json, os
HERE = os.path.dirname(os.path.abspath(__file__))
TECH = 'bounded symbolic execution of the real Python code with z3 bit-vector proxies (engine SX); '
CHECKS = {
 'C01': ('UNIT-A: real AssembledInstruction/PackedBits on enumerated field layouts with symbolic field values; '
         'z3 decides bytes == reference bit string for all values', '6 C01',
         'layout grid enumerated (sizes 1..64, <=4 fields); values |v| < 2^66; trusted: z3, proxy semantics (self-tested), reference encoder'),
 'C12': ('UNIT: real field packing on enumerated widths 1..64 with symbolic values; z3 decides accepted <=> value in '
         'signed-or-unsigned field range', '6 C12',
         'widths enumerated; values symbolic; trusted: z3, proxy semantics'),
}
CHECKS.update({
 'C02': ('PIPE: whole real two-pass assembler on program skeletons with symbolic origin/.org/.align/fill operands; z3 decides '
         'every line address, reserved size, emitted bytes and label value against a reference layout for all values', '6 C02',
         'skeletons enumerated (hand-written + seeded random, <= 12 statements); white-box read of line objects after assembly; trusted: z3, proxies, reference layout model'),
 'C03': ('PIPE: whole real assembler incl. the image loop with symbolic window start/end/fill and data bytes; z3 decides image == '
         'window onto reference memory map for all window values', '6 C03',
         'line placement concrete within 0..24 (symbolic in one family), window values symbolic; trusted: z3, proxies, reference memory map'),
 'C04': ('PIPE: k<=4 byte-producing lines each placed by a symbolic .org; z3 decides rejected <=> some pair of address ranges '
         'intersects, over every relative order (real sort + overlap scan run on proxies); on pair / predefined-block shapes also that every byte of an accepted program is in the image at its own address', '6 C04',
         'line kinds and source orders enumerated; addresses 0..40 symbolic (0..9 on image-level shapes); zero-length lines occupy nothing'),
 'C05': ('UNIT on MemoryZone/MemoryZoneManager with symbolic bounds at 6 address widths + PIPE zone layouts with symbolic zone '
         'bounds, origins, fill lengths; z3 decides accepted => every byte inside zone and GLOBAL, rejected => justified, '
         'addresses as if stretches were concatenated', '6 C05',
         'zone layouts enumerated; bounds symbolic; cursor may rest one past the zone end'),
 'C11': ('PIPE: whole real assembler on data/fill directive shapes with symbolic listed values, counts, targets, terminator; z3 '
         'decides image == described bytes for all values', '6 C11',
         'directive x width x endianness x list length enumerated; strings from a fixed catalogue (characters not symbolic)'),
})
CHECKS.update({
 'C07': ('UNIT: real parse_expression + ExpressionNode evaluation on proxies for enumerated operator trees rendered with minimal '
         'parentheses; every label leaf symbolic; z3 decides value == exact rational reference truncated toward zero', '6 C07',
         'trees with <= 2 (quick) / 3 (thorough) binary operators enumerated; leaves |v| <= 2^16 (2^7 with division); literal spellings and malformed texts from catalogues; history shapes parse layout neighbours first'),
})
CHECKS.update({
 'C08': ('PIPE: whole real assembler on directive sequences whose #if/#elif operands are symbolic integers (one stub: the condition '
         'operand parser); z3 decides, per line, selected-by-reference-chain-semantics <=> assembled, for all operand values', '6 C08',
         'sequences enumerated (hand-written per historical defect + seeded random, depth <= 3); operands -1000..1000; excluded lines well-formed'),
})
CHECKS.update({
 'C10': ('PIPE, relational: program with a macro invocation vs the hand-expanded program, both through the real assembler in one '
         'symbolic run; z3 decides image(macro) == image(expansion) incl. the label after it, for all operand/opcode values and origins', '6 C10',
         'macro catalogue enumerated (1..3 steps, 2 variants, all placeholder kinds, odd-sized steps, relative operands); expansions written by hand'),
 'C13': ('PIPE: deliberately ambiguous ISA definitions where every alternative carries distinct symbolic opcode/operand codes; z3 '
         'decides image == encoding of the alternative the documented priority selects, for all code and operand values', '6 C13',
         'ambiguous structures and statements from a hand-written catalogue; which alternatives accept a text is known by construction'),
})
CHECKS.update({
 'C06': ('PIPE: arrangements of global/file/local definitions and references over <= 3 files; every constant an independent symbol, '
         'origin symbolic; z3 decides each reference == value of the definition an independent scope resolver selects, for all values', '6 C06',
         'arrangements enumerated (catalogue + seeded random); rejection catalogue judged by exit status'),
 'C17': ('PIPE: single-file programs split into <= 3 files at seeded line boundaries; z3 decides image(split) == reference image of the '
         'unsplit text for all operand values and origins; scopes/zones across includes shared with C06/C05 models; rejection catalogue', '6 C17',
         'split points enumerated; the reference layout of the unsplit text defines "pasted in place"'),
})
CHECKS.update({
 'C14': ('PIPE: every symbolic path of program families with zero-length directives in every position, symbolic fill counts and '
         'single-fault corruptions; z3-guided exploration decides per path: failure => output never opened, success => opened once; '
         'a path exhausting its decision budget is replayed against the real CLI under a time limit', '6 C14',
         'termination claimed per explored path (decision budget 4000); corruption catalogue enumerated'),
 'C16': ('PIPE with pretty printing: symbolic bytes/addresses are rendered as opaque width-preserving tokens that decode back to z3 '
         'terms; z3 decides decoded address->byte map of listing / minhex / hex / intel_hex == image map for all data values and origins', '6 C16',
         'programs enumerated; byte->hex-digit rendering and the third-party intelhex writer are outside the symbolic claim (decoded concretely on replay)'),
 'C19': ('whole model load with min_version = a.b.c[b1] symbolic (version parser stubbed to symbolic tuples) + UNIT RequiredLanguageLine for '
         'all five operators + numeric well-formedness with symbolic values; z3 decides rejected <=> stated condition; corruption catalogue', '6 C19',
         'packaging.version parsing trusted; a text comparison of versions is forked over a catalogue of version texts; corruptions enumerated'),
 'C20': ('STR: the real generators run on a vocabulary catalogue; each emitted classification pattern is translated to a z3 regular '
         'expression; z3 decides that no identifier (symbolic string, length <= 12) outside the vocabulary is classified and that, in the flattened grammar contexts of both editors, no earlier rule claims a register in operand position or a mnemonic / macro name at statement start; files parsed for well-formedness', '6 C20',
         'regex subset (literals, classes, quantifiers, |, groups, (?i), \\b, ^ $, edge look-arounds); each translated pattern compared with Python re on the vocabulary; Python re replays counterexamples in place of Oniguruma'),
})
CHECKS.update({
 'C15': ('PIPE shapes of the C01/C02/C06/C16/C17 families run with every `set` built by the assembler replaced by a stub whose iteration order the solver chooses (each iteration forks over all permutations, sets of <= 5 elements); z3 decides on every order and for all values that the output equals the order-free reference; every replayed witness is also run through the real command line under 7 hash seeds, from another working directory and with reversed include directories', '6 C15',
         'variation modelled: set iteration order (symbolic), working directory / include order / hash seed (real runs, sampled); sets produced by set algebra or in modules outside the stub list iterate in CPython order'),
})
NA = {
}
PENDING = []
NA_FIXED = {
 'C09': 'quantifier is over names/line text handled by re.findall + str.replace on concrete strings; Python re cannot run on symbolic strings and an SMT-string re-model would not be the real code (DESIGN 7)',
 'C18': 'every rewrite acts on text consumed by regexes on concrete strings; no numeric/boolean input is quantified, the solver would decide nothing the property asks (DESIGN 7)',
}
def main():
    checks = []
    for pid, (text, ref, note) in sorted(CHECKS.items()):
        checks.append({
            'property_id': pid,
            'quick_cmd': f'./check {pid} --tier quick',
            'thorough_cmd': f'./check {pid} --tier thorough',
            'evidence_file': f'evidence/{pid}.json',
            'replay_cmd_template': f'./check {pid} --replay {{path}}',
            'engine': 'SX',
            'level_claimed': {'category': 'model_checking', 'text': text, 'design_ref': ref},
            'level_note': note,
            'technique': TECH + text.split(';')[0],
        })
    na = [{'property_id': k, 'reason': v} for k, v in sorted(NA_FIXED.items())]
    na += [{'property_id': k, 'reason': 'check not built yet in this revision (see DESIGN.md build order)'} for k in PENDING if k not in CHECKS]
    m = {
        'version': 1,
        'setup_cmd': './setup.sh',
        'hooks': {'guard': 'BESPOKEASM_VERIF', 'enable': 'no hooks are needed: checks import /repo/src directly and rebind builtins in module namespaces at run time',
                  'baseline_off_cmd': 'cd /repo && /venv/bin/python -m pytest -ra -q -p no:cacheprovider --timeout=900 --continue-on-collection-errors',
                  'source_commits': [], 'add_only': True},
        'engines': [{'name': 'SX', 'path': 'sx/', 'serves_properties': sorted(CHECKS),
                     'kind_free_text': 'z3-backed proxy symbolic executor running the real repo code (DFS by re-execution, incremental solver)'}],
        'checks': checks,
        'not_applicable': sorted(na, key=lambda x: x['property_id']),
        'notes': 'exit 0 held / 1 reproduced violation / 3 harness integrity failure. Known findings: known_findings.json.',
    }
    json.dump(m, open(os.path.join(HERE, 'MANIFEST.json'), 'w'), indent=1)
if __name__ == '__main__':
    main()
