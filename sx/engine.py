"""SX - bounded symbolic execution of real Python code through z3 bit-vector proxies.

The code under analysis is *executed*; integers that the harness declares symbolic are `SymInt`
objects wrapping z3 bit-vector terms.  A branch on a symbolic condition (`SymBool.__bool__`) asks the
solver which sides are feasible under the current path condition and forks (depth-first search by
re-execution with a decision trail, one incremental solver, push/pop along the trail).

Integer semantics: Python's unbounded `int` is modelled by W-bit two's complement vectors together with a
recorded *no-overflow obligation* for every operation that can leave the W-bit range.  At the end of a path
the obligations are assumed (inputs that overflow are outside the claim) and the number of paths on which an
overflow was reachable at all is reported, so that a harness can size its input bounds to make it zero.
"""
from __future__ import annotations

import os
import builtins
import time
import z3

W = 128


def set_width(w: int) -> None:
    global W
    W = w


class EngineSignal(BaseException):
    """Base of engine-internal control flow (never caught by `except Exception`)."""


class PathAbort(EngineSignal):
    """The current path is infeasible / must be dropped silently."""


class Inconclusive(EngineSignal):
    """A bound of the engine was exceeded on this path: the shape cannot be decided."""

    def __init__(self, reason: str):
        super().__init__(reason)
        self.reason = reason


class NonTermination(EngineSignal):
    """Per-path decision or time budget exhausted: candidate non-termination."""

    def __init__(self, reason: str):
        super().__init__(reason)
        self.reason = reason


class HarnessError(Exception):
    """The machinery itself is broken (exit code 3)."""


# --------------------------------------------------------------------------------------------
# context
# --------------------------------------------------------------------------------------------
class Ctx:
    cur: 'Ctx' = None

    def __init__(self, solver_timeout_ms: int = 20000, max_decisions: int = 4000, path_wall_s: float = 60.0):
        self.solver = z3.Solver()
        self.solver.set('timeout', solver_timeout_ms)
        self.trail: list[list] = []     # [choice(bool or int), alternatives_left]
        self.pos = 0
        self.kept = 0                   # trail entries whose constraint is pushed on the solver
        self.queries = 0
        self.solver_s = 0.0
        self.decisions = 0              # total forks taken (over all paths)
        self.model = None               # model of the current solver state, if known
        self.symbols: dict[str, z3.BitVecRef] = {}
        self.sym_ranges: dict[str, tuple] = {}
        self.str_symbols: dict = {}
        self.obligations: list[z3.BoolRef] = []
        self.max_decisions = max_decisions
        self.path_wall_s = path_wall_s
        self.path_t0 = 0.0
        self.decided: dict[int, tuple] = {}
        self.bindings: list = []
        self.notes: dict = {}
        self.base_assumptions: list[z3.BoolRef] = []
        self.first_path = True

    # ---- symbols -------------------------------------------------------------------------
    def sym(self, name: str, lo: int = None, hi: int = None) -> 'SymInt':
        """Declare (idempotently) a symbolic integer with optional inclusive bounds."""
        if name not in self.symbols:
            if self.kept != 0 or self.trail or not self.first_path:
                raise HarnessError(f'symbol {name} declared after the first branch')
            v = z3.BitVec(name, W)
            self.symbols[name] = v
            if lo is not None and hi is not None:
                self.sym_ranges[name] = (lo, hi)
            if lo is not None:
                self.assume_base(v >= z3.BitVecVal(lo, W))
            if hi is not None:
                self.assume_base(v <= z3.BitVecVal(hi, W))
        return SymInt(self.symbols[name], self.sym_ranges.get(name))

    def str_sym(self, name: str):
        """Declare (idempotently) a symbolic string (z3 sequence sort); used by the STR harnesses only."""
        if name not in self.str_symbols:
            self.str_symbols[name] = z3.String(name)
        return self.str_symbols[name]

    def assume_base(self, cond) -> None:
        if not self.first_path:
            return                      # already part of the solver's base level
        if self.kept != 0:
            raise HarnessError('base assumption added after the first branch')
        if isinstance(cond, SymBool):
            cond = cond.e
        self.base_assumptions.append(cond)
        self.solver.add(cond)
        self.model = None

    # ---- solver --------------------------------------------------------------------------
    def _check(self, *extra) -> bool:
        t = time.time()
        self.queries += 1
        r = self.solver.check(*extra)
        self.solver_s += time.time() - t
        if r == z3.unknown:
            raise Inconclusive(f'solver unknown: {self.solver.reason_unknown()}')
        return r == z3.sat

    def _push(self, c) -> None:
        self.solver.push()
        self.solver.add(c)
        self.kept += 1

    def _budget(self) -> None:
        if self.pos > self.max_decisions:
            raise NonTermination(f'more than {self.max_decisions} decisions on one path')
        if time.time() - self.path_t0 > self.path_wall_s:
            raise NonTermination(f'path exceeded {self.path_wall_s}s wall time')

    def _bind(self, term, val):
        """remember `symbol == constant` facts of the current path; they are substituted into later conditions so
        that branches they decide need no solver call"""
        if z3.is_const(term) and term.decl().kind() == z3.Z3_OP_UNINTERPRETED and z3.is_bv(term):
            self.bindings.append((term, z3.BitVecVal(val, term.size())))

    def _note_equality(self, cond, choice):
        if choice and z3.is_eq(cond):
            a, b = cond.arg(0), cond.arg(1)
            if z3.is_bv_value(b) and not z3.is_bv_value(a):
                self._bind(a, b.as_long())
            elif z3.is_bv_value(a) and not z3.is_bv_value(b):
                self._bind(b, a.as_long())

    def decide(self, cond, prefer=None) -> bool:
        """Fork on a z3 Bool; returns the side taken on the current path (`prefer`: side to explore first)."""
        if self.bindings:
            cond = z3.substitute(cond, *self.bindings)
        cond = z3.simplify(cond)
        if z3.is_true(cond):
            return True
        if z3.is_false(cond):
            return False
        key = cond.get_id()
        hit = self.decided.get(key)
        if hit is not None:
            return hit[1]
        self._budget()
        if self.pos < len(self.trail):
            choice = self.trail[self.pos][0]
            if self.pos >= self.kept:
                self._push(cond if choice else z3.Not(cond))
                self.model = None
        else:
            if self.model is None:
                if not self._check():
                    raise PathAbort('infeasible')
                self.model = self.solver.model()
            mv = self.model.eval(cond, model_completion=True)
            if prefer is not None and z3.is_true(mv) != prefer:
                if self._check(cond if prefer else z3.Not(cond)):
                    other, choice = True, prefer      # the model's side is known to be feasible
                    self.model = None
                else:
                    other, choice = False, not prefer
            elif z3.is_true(mv):
                other = self._check(z3.Not(cond))
                choice = True
            else:
                other = self._check(cond)
                choice = False
            self.trail.append([choice, 1 if other else 0])
            self._push(cond if choice else z3.Not(cond))
            self.decisions += 1
        self.pos += 1
        self.decided[key] = (cond, choice)
        self._note_equality(cond, choice)
        return choice

    def choose(self, term, limit: int = 64, rng=None) -> int:
        """K-way fork over the feasible values of a bit-vector term; returns the concrete value."""
        if self.bindings:
            term = z3.substitute(term, *self.bindings)
        term = z3.simplify(term)
        if z3.is_bv_value(term):
            return term.as_signed_long()
        self._budget()
        if self.pos < len(self.trail):
            ent = self.trail[self.pos]
            val = ent[0]
            if self.pos >= self.kept:
                self._push(term == z3.BitVecVal(val, W))
                self.model = None
            self.pos += 1
            self._bind(term, val)
            return val
        # new K-way decision: enumerate feasible values lazily; trail entry = [value, seen_list]
        seen = []
        val = self._next_value(term, seen, rng)
        if val is None:
            raise PathAbort('infeasible')
        self.trail.append([val, ('K', term, seen, limit, rng)])
        self._push(term == z3.BitVecVal(val, W))
        self.model = None
        self.decisions += 1
        self.pos += 1
        self._bind(term, val)
        return val

    def _next_value(self, term, seen, rng=None):
        if rng is not None and rng[1] - rng[0] < 64:
            # small sound interval: test the candidates one by one (equalities propagate, disequalities do not)
            for v in range(rng[0], rng[1] + 1):
                if v in seen:
                    continue
                seen.append(v)
                if self._check(term == z3.BitVecVal(v, W)):
                    return v
            return None
        cons = [term != z3.BitVecVal(v, W) for v in seen]
        if not self._check(*cons):
            return None
        m = self.solver.model()
        v = m.eval(term, model_completion=True).as_signed_long()
        seen.append(v)
        return v

    def backtrack(self) -> bool:
        """Move to the next unexplored path; False when the tree is exhausted."""
        self.first_path = False
        while self.trail:
            idx = len(self.trail) - 1
            while self.kept > idx:
                self.solver.pop()
                self.kept -= 1
            ent = self.trail[-1]
            alts = ent[1]
            if isinstance(alts, tuple):             # K-way
                _, term, seen, limit, rng = alts
                if len(seen) > limit:
                    raise Inconclusive(f'concretisation fan-out above {limit}')
                val = self._next_value(term, seen, rng)
                if val is not None:
                    ent[0] = val
                    self.model = None
                    return True
            elif alts:
                ent[0] = not ent[0]
                ent[1] = 0
                self.model = None
                return True
            self.trail.pop()
        return False

    def start_path(self) -> None:
        self.pos = 0
        self.obligations = []
        self.decided = {}
        self.bindings = []
        self.path_t0 = time.time()
        self.notes = {}
        if self.kept == 0:
            self.model = None

    def oblige(self, cond) -> None:
        c = z3.simplify(cond)
        if not z3.is_true(c):
            self.obligations.append(c)

    def path_model(self):
        """A model of the current path condition (None if infeasible)."""
        if not self._check():
            return None
        return self.solver.model()


def model_to_dict(ctx: Ctx, m) -> dict:
    out = {}
    for name, v in ctx.symbols.items():
        out[name] = m.eval(v, model_completion=True).as_signed_long()
    for name, v in ctx.str_symbols.items():
        out[name] = m.eval(v, model_completion=True).as_string()
    return out


# --------------------------------------------------------------------------------------------
# proxies
# --------------------------------------------------------------------------------------------
def bvval(x: int):
    if not (-(1 << (W - 1)) <= x < (1 << (W - 1))):
        raise Inconclusive(f'constant {x} does not fit {W} bits')
    return z3.BitVecVal(x, W)


def Z(x):
    """int | bool | SymInt -> z3 bit-vector term"""
    if isinstance(x, SymInt):
        return x.e
    if isinstance(x, (bool, builtins.int)):
        return bvval(builtins.int(x))
    if isinstance(x, SymBool):
        return z3.If(x.e, bvval(1), bvval(0))
    raise TypeError(f'cannot lift {type(x).__name__} into the solver')


def _liftable(x) -> bool:
    return isinstance(x, (SymInt, bool, builtins.int, SymBool))


class SymBool:
    __slots__ = ('e',)

    def __init__(self, e):
        self.e = e

    def __bool__(self):
        return Ctx.cur.decide(self.e)

    def __and__(self, o):
        return SymBool(z3.And(self.e, B(o)))
    __rand__ = __and__

    def __or__(self, o):
        return SymBool(z3.Or(self.e, B(o)))
    __ror__ = __or__

    def __invert__(self):
        return SymBool(z3.Not(self.e))

    def __eq__(self, o):
        return SymBool(self.e == B(o))

    def __ne__(self, o):
        return SymBool(self.e != B(o))

    def __hash__(self):
        return 1

    def __repr__(self):
        return f'SymBool({self.e})'


def B(x):
    if isinstance(x, SymBool):
        return x.e
    if isinstance(x, bool):
        return z3.BoolVal(x)
    if isinstance(x, SymInt):
        return x.e != bvval(0)
    if isinstance(x, builtins.int):
        return z3.BoolVal(x != 0)
    raise TypeError(type(x))


_fmt_registry: list = []
_PUA0, _PUA_N, _PUA_FILL = 0xE000, 6000, 0xF8FE


def fmt_token(n: int, spec: str) -> str:
    """width-preserving token of private-use characters identifying registry entry n"""
    import re as _re
    m = _re.match(r'^(?:.?[<>^=])?[+\- ]?#?0?(\d+)?', spec or '')
    width = int(m.group(1)) if m and m.group(1) else 0
    if n >= _PUA_N * _PUA_N:
        raise Inconclusive('format registry overflow')
    tok = chr(_PUA0 + n // _PUA_N) + chr(_PUA0 + n % _PUA_N)
    if width == 1 and n < _PUA_N:
        return chr(_PUA0 + n) + ''      # single cell: only for small registries
    return tok + chr(_PUA_FILL) * max(0, width - 2)


def decode_tokens(text: str):
    """-> list of (start, end, term, spec) for every token in text"""
    out = []
    i = 0
    while i < len(text):
        o = ord(text[i])
        if _PUA0 <= o < _PUA0 + _PUA_N and i + 1 < len(text) and _PUA0 <= ord(text[i + 1]) < _PUA0 + _PUA_N:
            n = (o - _PUA0) * _PUA_N + (ord(text[i + 1]) - _PUA0)
            j = i + 2
            while j < len(text) and ord(text[j]) == _PUA_FILL:
                j += 1
            e, spec = _fmt_registry[n]
            out.append((i, j, e, spec))
            i = j
        else:
            i += 1
    return out


def reset_fmt_registry():
    del _fmt_registry[:]


def _rng_of(x):
    """conservative integer interval of int | SymInt (None = unknown)"""
    if isinstance(x, SymInt):
        return x.rng
    if isinstance(x, (bool, builtins.int)):
        v = builtins.int(x)
        return (v, v)
    if isinstance(x, SymBool):
        return (0, 1)
    return None


def _fits(r):
    return r is not None and -(1 << (W - 1)) <= r[0] and r[1] < (1 << (W - 1))


class SymInt:
    """Python-int semantics over a W-bit vector, with recorded no-overflow obligations.

    `rng` is a conservative interval (plain ints) maintained alongside the term; when the interval of a result
    fits the vector, the no-overflow obligation is discharged without the solver."""
    __slots__ = ('e', 'rng')

    def __init__(self, e, rng=None):
        if isinstance(e, builtins.int):
            rng = (e, e)
            e = bvval(e)
        elif rng is None and z3.is_bv_value(e):
            v = e.as_signed_long()
            rng = (v, v)
        self.e = e
        self.rng = rng

    # -- helpers --
    @staticmethod
    def _ob(c):
        Ctx.cur.oblige(c)

    @property
    def is_concrete(self) -> bool:
        return z3.is_bv_value(z3.simplify(self.e))

    def concrete(self):
        s = z3.simplify(self.e)
        return s.as_signed_long() if z3.is_bv_value(s) else None

    # -- arithmetic --
    def __add__(s, o):
        if not _liftable(o):
            return NotImplemented
        b = Z(o)
        ra, rb = s.rng, _rng_of(o)
        r = (ra[0] + rb[0], ra[1] + rb[1]) if ra and rb else None
        if not _fits(r):
            r = None
            s._ob(z3.And(z3.BVAddNoOverflow(s.e, b, True), z3.BVAddNoUnderflow(s.e, b)))
        return SymInt(s.e + b, r)
    __radd__ = __add__

    def __sub__(s, o):
        if not _liftable(o):
            return NotImplemented
        b = Z(o)
        ra, rb = s.rng, _rng_of(o)
        r = (ra[0] - rb[1], ra[1] - rb[0]) if ra and rb else None
        if not _fits(r):
            r = None
            s._ob(z3.And(z3.BVSubNoOverflow(s.e, b), z3.BVSubNoUnderflow(s.e, b, True)))
        return SymInt(s.e - b, r)

    def __rsub__(s, o):
        if not _liftable(o):
            return NotImplemented
        a = Z(o)
        ra, rb = _rng_of(o), s.rng
        r = (ra[0] - rb[1], ra[1] - rb[0]) if ra and rb else None
        if not _fits(r):
            r = None
            s._ob(z3.And(z3.BVSubNoOverflow(a, s.e), z3.BVSubNoUnderflow(a, s.e, True)))
        return SymInt(a - s.e, r)

    def __mul__(s, o):
        if not _liftable(o):
            return NotImplemented
        b = Z(o)
        ra, rb = s.rng, _rng_of(o)
        r = None
        if ra and rb:
            ps = [ra[0] * rb[0], ra[0] * rb[1], ra[1] * rb[0], ra[1] * rb[1]]
            r = (min(ps), max(ps))
        if not _fits(r):
            r = None
            s._ob(z3.And(z3.BVMulNoOverflow(s.e, b, True), z3.BVMulNoUnderflow(s.e, b)))
        return SymInt(s.e * b, r)
    __rmul__ = __mul__

    def __neg__(s):
        r = (-s.rng[1], -s.rng[0]) if s.rng else None
        if not _fits(r):
            r = None
            s._ob(z3.BVSNegNoOverflow(s.e))
        return SymInt(-s.e, r)

    def __pos__(s):
        return s

    def __abs__(s):
        r = None
        if s.rng:
            m = max(abs(s.rng[0]), abs(s.rng[1]))
            r = (0, m)
        if not _fits(r):
            r = None
            s._ob(z3.BVSNegNoOverflow(s.e))
        return SymInt(z3.If(s.e < 0, -s.e, s.e), r)

    def __invert__(s):
        return SymInt(~s.e)

    @staticmethod
    def _floordivmod(a, b):
        """Python floor division / modulo of bit-vector terms (b != 0 assumed by caller)."""
        q = a / b                # bvsdiv: truncation toward zero
        r = z3.SRem(a, b)        # sign follows dividend
        adj = z3.And(r != 0, (r < 0) != (b < 0))
        one = z3.BitVecVal(1, W)
        return z3.If(adj, q - one, q), z3.If(adj, r + b, r)

    def _divcommon(s, a, b):
        if SymBool(b == bvval(0)):
            raise ZeroDivisionError('integer division or modulo by zero')
        s._ob(z3.Not(z3.And(a == bvval(-(1 << (W - 1))), b == bvval(-1))))

    @staticmethod
    def _fdm(a, b, ranges=(None, None)):
        """(a // b, a % b) with Python floor semantics; the common non-negative case uses the unsigned operators."""
        tmp = SymInt(a)
        tmp._divcommon(a, b)
        ra, rb = ranges
        if SymBool(z3.And(a >= 0, b > 0)):
            qr = (0, ra[1]) if ra and ra[1] >= 0 else None
            if ra and rb and rb[0] == rb[1] and rb[0] > 0 and ra[0] >= 0:
                qr = (ra[0] // rb[0], ra[1] // rb[0])
            rr = (0, rb[1] - 1) if rb and rb[1] >= 1 else None
            return SymInt(z3.UDiv(a, b), qr), SymInt(z3.URem(a, b), rr)
        q, r = SymInt._floordivmod(a, b)
        m = None
        if ra:
            mm = max(abs(ra[0]), abs(ra[1]))
            m = (-mm - 1, mm + 1)
        mr = None
        if rb:
            mm = max(abs(rb[0]), abs(rb[1]))
            mr = (-mm, mm)
        return SymInt(q, m), SymInt(r, mr)

    def __floordiv__(s, o):
        if not _liftable(o):
            return NotImplemented
        return SymInt._fdm(s.e, Z(o), (s.rng, _rng_of(o)))[0]

    def __rfloordiv__(s, o):
        if not _liftable(o):
            return NotImplemented
        return SymInt._fdm(Z(o), s.e, (_rng_of(o), s.rng))[0]

    def __mod__(s, o):
        if not _liftable(o):
            return NotImplemented
        return SymInt._fdm(s.e, Z(o), (s.rng, _rng_of(o)))[1]

    def __rmod__(s, o):
        if not _liftable(o):
            return NotImplemented
        return SymInt._fdm(Z(o), s.e, (_rng_of(o), s.rng))[1]

    def __divmod__(s, o):
        return (s // o, s % o)

    def __truediv__(s, o):
        if isinstance(o, SymRat):
            return SymRat(s, 1) / o
        if not _liftable(o):
            return NotImplemented
        return SymRat(s, 1) / SymRat(o if isinstance(o, SymInt) else SymInt(Z(o)), 1)

    def __rtruediv__(s, o):
        if not _liftable(o):
            return NotImplemented
        return SymRat(SymInt(Z(o)), 1) / SymRat(s, 1)

    def __pow__(s, o):
        k = o.concrete() if isinstance(o, SymInt) else o
        if not isinstance(k, builtins.int) or k < 0 or k > 8:
            raise Inconclusive('symbolic ** with unsupported exponent')
        r = SymInt(bvval(1))
        for _ in range(k):
            r = r * s
        return r

    def __rpow__(s, base):
        if base != 2:
            raise Inconclusive('int ** symbolic only supported for base 2')
        if SymBool(s.e < 0):
            raise Inconclusive('2 ** negative symbolic exponent (float result)')
        return SymInt(1) << s

    # -- bit operations --
    def __lshift__(s, o):
        if not _liftable(o):
            return NotImplemented
        k = Z(o)
        ra, rk = s.rng, _rng_of(o)
        if not (rk and rk[0] >= 0) and SymBool(k < 0):
            raise ValueError('negative shift count')
        r = s.e << k
        rr = None
        if ra and rk and 0 <= rk[0] and rk[1] < 4 * W:
            ps = [ra[0] << rk[0], ra[0] << rk[1], ra[1] << rk[0], ra[1] << rk[1]]
            rr = (min(ps), max(ps))
        if not _fits(rr):
            rr = None
            # no overflow: shift count below W and arithmetic shift back restores the value
            s._ob(z3.Or(s.e == 0, z3.And(z3.ULT(k, bvval(W)), (r >> k) == s.e)))
        if rr is not None:
            return SymInt(r, rr)
        return SymInt(z3.If(s.e == 0, bvval(0), r), rr)

    def __rlshift__(s, o):
        return SymInt(Z(o)) << s

    def __rshift__(s, o):
        if not _liftable(o):
            return NotImplemented
        k = Z(o)
        rr = (min(s.rng[0], 0), max(s.rng[1], 0)) if s.rng else None
        rk = _rng_of(o)
        if rk and 0 <= rk[0] and rk[1] < W:
            return SymInt(s.e >> k, rr)
        if SymBool(k < 0):
            raise ValueError('negative shift count')
        big = z3.UGE(k, bvval(W))
        return SymInt(z3.If(big, z3.If(s.e < 0, bvval(-1), bvval(0)), s.e >> k), rr)

    def __rrshift__(s, o):
        return SymInt(Z(o)) >> s

    def __and__(s, o):
        if not _liftable(o):
            return NotImplemented
        ra, rb = s.rng, _rng_of(o)
        rr = None
        if rb and rb[0] >= 0:
            rr = (0, rb[1])
        elif ra and ra[0] >= 0:
            rr = (0, ra[1])
        else:
            rr = SymInt._bitrange(ra, rb)
        return SymInt(s.e & Z(o), rr)
    __rand__ = __and__

    @staticmethod
    def _bitrange(ra, rb):
        if ra and rb and ra[0] >= 0 and rb[0] >= 0:
            return (0, (1 << max(ra[1].bit_length(), rb[1].bit_length())) - 1)
        if ra and rb:
            m = max(abs(ra[0]), abs(ra[1]), abs(rb[0]), abs(rb[1])).bit_length()
            return (-(1 << m), (1 << m) - 1)
        return None

    def __or__(s, o):
        if not _liftable(o):
            return NotImplemented
        return SymInt(s.e | Z(o), SymInt._bitrange(s.rng, _rng_of(o)))
    __ror__ = __or__

    def __xor__(s, o):
        if not _liftable(o):
            return NotImplemented
        return SymInt(s.e ^ Z(o), SymInt._bitrange(s.rng, _rng_of(o)))
    __rxor__ = __xor__

    # -- comparison --
    def _cmp(s, o, f):
        if isinstance(o, SymRat):
            return NotImplemented
        if not _liftable(o):
            return NotImplemented
        return SymBool(f(s.e, Z(o)))

    def __lt__(s, o): return s._cmp(o, lambda a, b: a < b)
    def __le__(s, o): return s._cmp(o, lambda a, b: a <= b)
    def __gt__(s, o): return s._cmp(o, lambda a, b: a > b)
    def __ge__(s, o): return s._cmp(o, lambda a, b: a >= b)

    def __eq__(s, o):
        if isinstance(o, SymRat):
            return o == s
        if not _liftable(o):
            return False
        return SymBool(s.e == Z(o))

    def __ne__(s, o):
        if isinstance(o, SymRat):
            return o != s
        if not _liftable(o):
            return True
        return SymBool(s.e != Z(o))

    def __hash__(s):
        return 0

    def __bool__(s):
        return Ctx.cur.decide(s.e != bvval(0))

    # -- conversions --
    def __index__(s):
        return Ctx.cur.choose(s.e, rng=s.rng)

    def bit_length(s):
        a = z3.If(s.e < 0, -s.e, s.e)
        if not (s.rng and _fits((-s.rng[1], -s.rng[0]))):
            s._ob(z3.BVSNegNoOverflow(s.e))
        r = bvval(0)
        for k in range(0, W - 1):
            r = z3.If(z3.UGE(a, bvval(1 << k)), bvval(k + 1), r)
        hi = max(abs(s.rng[0]), abs(s.rng[1])).bit_length() if s.rng else W
        return SymInt(r, (0, hi))

    def to_bytes(s, length=1, byteorder='big', *, signed=False):
        if isinstance(length, SymInt):
            length = Ctx.cur.choose(length.e, rng=length.rng)
        if isinstance(signed, SymBool):
            signed = bool(signed)
        n = length
        if n < 0:
            raise ValueError('length argument must be non-negative')
        if 8 * n >= W:
            raise Inconclusive(f'to_bytes({n}) wider than the {W}-bit model')
        if not signed:
            if s < 0:
                raise OverflowError("can't convert negative int to unsigned")
            if s >= (1 << (8 * n)):
                raise OverflowError('int too big to convert')
        else:
            if n == 0:
                if (s != 0) and (s != -1):      # CPython: (-1).to_bytes(0, signed=True) == b''
                    raise OverflowError('int too big to convert')
            elif (s < -(1 << (8 * n - 1))) or (s >= (1 << (8 * n - 1))):
                raise OverflowError('int too big to convert')
        bs = [SymInt(z3.ZeroExt(W - 8, z3.Extract(8 * i + 7, 8 * i, s.e)), (0, 255)) for i in range(n)]
        if byteorder == 'big':
            bs.reverse()
        elif byteorder != 'little':
            raise ValueError("byteorder must be either 'little' or 'big'")
        return bs

    # -- rendering: opaque, never forks; the token has the width the format spec asks for and can be decoded back --
    def __format__(s, spec):
        c = s.concrete()
        if c is not None:
            return format(c, spec)
        _fmt_registry.append((s.e, spec))
        return fmt_token(len(_fmt_registry) - 1, spec)

    def __str__(s):
        return s.__format__('')

    def __repr__(s):
        c = s.concrete()
        return f'SymInt({c})' if c is not None else f'SymInt<{z3.simplify(s.e)}>'


class SymRat:
    """Exact rational (num/den, den != 0) over SymInt - stands in for fractions.Fraction / exact division."""
    __slots__ = ('n', 'd')

    def __init__(self, n, d=1):
        if isinstance(n, SymRat):
            n, d0 = n.n, n.d
            d = d0 if (isinstance(d, builtins.int) and d == 1) else d0 * d
        self.n = n if isinstance(n, SymInt) else SymInt(Z(n))
        self.d = d if isinstance(d, SymInt) else SymInt(Z(d))

    @staticmethod
    def lift(x):
        if isinstance(x, SymRat):
            return x
        if _liftable(x):
            return SymRat(x, 1)
        return None

    def __add__(s, o):
        o = SymRat.lift(o)
        if o is None:
            return NotImplemented
        return SymRat(s.n * o.d + o.n * s.d, s.d * o.d)
    __radd__ = __add__

    def __sub__(s, o):
        o = SymRat.lift(o)
        if o is None:
            return NotImplemented
        return SymRat(s.n * o.d - o.n * s.d, s.d * o.d)

    def __rsub__(s, o):
        o = SymRat.lift(o)
        if o is None:
            return NotImplemented
        return o - s

    def __mul__(s, o):
        o = SymRat.lift(o)
        if o is None:
            return NotImplemented
        return SymRat(s.n * o.n, s.d * o.d)
    __rmul__ = __mul__

    def __truediv__(s, o):
        o = SymRat.lift(o)
        if o is None:
            return NotImplemented
        if o.n == 0:
            raise ZeroDivisionError('division by zero')
        return SymRat(s.n * o.d, s.d * o.n)

    def __rtruediv__(s, o):
        o = SymRat.lift(o)
        if o is None:
            return NotImplemented
        return o / s

    def __mod__(s, o):
        # Python semantics: a - b*floor(a/b)
        o = SymRat.lift(o)
        if o is None:
            return NotImplemented
        if o.n == 0:
            raise ZeroDivisionError('modulo by zero')
        if s.d.concrete() == 1 and o.d.concrete() == 1:
            return SymRat(s.n % o.n, 1)         # Fraction(a) % Fraction(b) == Fraction(a % b) for integers
        q = (s / o).floor()
        return s - o * q

    def __rmod__(s, o):
        o = SymRat.lift(o)
        if o is None:
            return NotImplemented
        return o % s

    def __neg__(s):
        return SymRat(-s.n, s.d)

    def floor(s) -> SymInt:
        return s.n // s.d

    # the numeric protocol used by math.floor / math.ceil / math.trunc / int()
    def __floor__(s):
        return s.floor()

    def __ceil__(s):
        return -((-s.n) // s.d)

    def __trunc__(s):
        return s.trunc()

    def __round__(s, ndigits=None):
        raise Inconclusive('round() of an exact rational is not modelled')

    def trunc(s) -> SymInt:
        """Truncation toward zero (what `int()` does)."""
        if s.d.concrete() == 1:
            return s.n
        a, b = s.n.e, s.d.e
        rr = None
        if s.n.rng:
            m = max(abs(s.n.rng[0]), abs(s.n.rng[1]))
            rr = (-m, m)
        else:
            s.n._ob(z3.Not(z3.And(a == bvval(-(1 << (W - 1))), b == bvval(-1))))
        return SymInt(a / b, rr)

    def _cmpkey(s, o):
        o = SymRat.lift(o)
        # compare n1/d1 ? n2/d2  <=>  n1*d2*sign ? n2*d1*sign  with sign = sign(d1*d2)
        l = s.n * o.d
        r = o.n * s.d
        neg = SymBool((s.d.e < 0) != (o.d.e < 0))
        return l, r, neg

    def __eq__(s, o):
        if SymRat.lift(o) is None:
            return False
        l, r, _ = s._cmpkey(o)
        return l == r

    def __ne__(s, o):
        if SymRat.lift(o) is None:
            return True
        l, r, _ = s._cmpkey(o)
        return l != r

    def __lt__(s, o):
        l, r, neg = s._cmpkey(o)
        return SymBool(z3.If(neg.e, l.e > r.e, l.e < r.e))

    def __le__(s, o):
        l, r, neg = s._cmpkey(o)
        return SymBool(z3.If(neg.e, l.e >= r.e, l.e <= r.e))

    def __gt__(s, o):
        l, r, neg = s._cmpkey(o)
        return SymBool(z3.If(neg.e, l.e < r.e, l.e > r.e))

    def __ge__(s, o):
        l, r, neg = s._cmpkey(o)
        return SymBool(z3.If(neg.e, l.e <= r.e, l.e >= r.e))

    def __hash__(s):
        return 0

    def __format__(s, spec):
        return f'rat'

    def __repr__(s):
        return f'SymRat<{s.n!r}/{s.d!r}>'


class SymByteArray:
    """List-backed stand-in for `bytearray` whose elements may be SymInt."""

    def __init__(self, src=0, *a):
        if isinstance(src, SymInt):
            src = src.__index__()
        if isinstance(src, builtins.int):
            self.d = [0] * src
        elif isinstance(src, SymByteArray):
            self.d = list(src.d)
        else:
            self.d = list(src)

    def append(self, v):
        self.d.append(v)

    def extend(self, it):
        if it is None:
            raise TypeError("'NoneType' object is not iterable")
        self.d.extend(list(it))

    def __len__(self):
        return len(self.d)

    def __getitem__(self, i):
        if isinstance(i, slice):
            return SymByteArray(self.d[i])
        return self.d[i]

    def __setitem__(self, i, v):
        self.d[i] = v

    def __iter__(self):
        return iter(self.d)

    def __eq__(self, o):
        if isinstance(o, (SymByteArray,)):
            o = o.d
        o = list(o)
        if len(o) != len(self.d):
            return False
        r = True
        for a, b in zip(self.d, o):
            r = (a == b) & r if isinstance(a == b, SymBool) or isinstance(r, SymBool) else ((a == b) and r)
        return r

    def __hash__(self):
        return 2

    def __add__(self, o):
        return SymByteArray(self.d + list(o))

    def __iadd__(self, o):
        self.d.extend(list(o))
        return self

    def __mul__(self, n):
        if isinstance(n, SymInt):
            n = n.__index__()
        return SymByteArray(self.d * n)

    __rmul__ = __mul__

    def __imul__(self, n):
        self.d = (self * n).d
        return self

    def __delitem__(self, i):
        del self.d[i]

    def __contains__(self, v):
        return any(bool(x == v) for x in self.d)

    def insert(self, i, v):
        self.d.insert(i, v)

    def pop(self, i=-1):
        return self.d.pop(i)

    def clear(self):
        self.d.clear()

    def copy(self):
        return SymByteArray(self.d)

    def reverse(self):
        self.d.reverse()

    def decode(self, *a, **k):
        # only used to hand bytes to IntelHex.puts; keep elements (recorder stub re-reads them)
        return SymStrOfBytes(self.d)

    def hex(self, *a):
        return 'hex'

    def __repr__(self):
        return f'SymByteArray({self.d!r})'


class SymStrOfBytes:
    def __init__(self, d):
        self.d = list(d)

    def __len__(self):
        return len(self.d)


class SymIntType(type):
    def __instancecheck__(cls, obj):
        return isinstance(obj, (builtins.int, SymInt))


class sym_int(metaclass=SymIntType):
    """Replacement for the builtin `int` in repo module namespaces: proxy-aware, always yields SymInt for numbers
    so that every dictionary keyed by an address holds proxies only."""

    def __new__(cls, x=0, base=None):
        if isinstance(x, SymInt):
            return x
        if isinstance(x, (SymRat, SymFloat)):
            return x.trunc()
        if isinstance(x, SymBool):
            return SymInt(Z(x))
        if base is None:
            return SymInt(bvval(builtins.int(x)))
        return SymInt(bvval(builtins.int(x, base)))

    @staticmethod
    def from_bytes(data, byteorder='big', *, signed=False):
        items = list(data)
        if byteorder == 'little':
            items.reverse()
        elif byteorder != 'big':
            raise ValueError("byteorder must be either 'little' or 'big'")
        if 8 * len(items) >= W:
            raise Inconclusive('from_bytes wider than model')
        acc = bvval(0)
        for b in items:
            acc = (acc << 8) | (Z(b) & bvval(0xff))
        if signed and items:
            n = 8 * len(items)
            acc = z3.SignExt(W - n, z3.Extract(n - 1, 0, acc))
            return SymInt(acc, (-(1 << (n - 1)), (1 << (n - 1)) - 1))
        return SymInt(acc, (0, (1 << (8 * len(items))) - 1))


class SymFloat:
    """IEEE-754 binary64 value (z3 FP sort, round-nearest-even) - what Python's `float` arithmetic really computes.
    Only created when the code under analysis itself calls float(): each query costs seconds, so harnesses keep the
    operands small."""
    __slots__ = ('f', 'exact')
    RM = None

    def __init__(self, f):
        self.f = f
        self.exact = None       # the SymInt this float was converted from, when the conversion is exact

    @staticmethod
    def rm():
        return z3.RNE()

    @staticmethod
    def lift(x):
        if isinstance(x, SymFloat):
            return x
        if isinstance(x, SymInt):
            e = x.e
            if x.rng is not None:           # a narrow source keeps the conversion circuit small
                for k in (8, 12, 16, 24, 32, 48):
                    if k < W and -(1 << (k - 1)) <= x.rng[0] and x.rng[1] < (1 << (k - 1)):
                        e = z3.Extract(k - 1, 0, x.e)
                        break
            r = SymFloat(z3.fpSignedToFP(z3.RNE(), e, z3.Float64()))
            if x.rng is not None and max(abs(x.rng[0]), abs(x.rng[1])) < (1 << 53):
                r.exact = x
            return r
        if isinstance(x, (bool, builtins.int)):
            return SymFloat(z3.FPVal(float(x), z3.Float64()))
        if isinstance(x, builtins.float):
            return SymFloat(z3.FPVal(x, z3.Float64()))
        return None

    def _bin(s, o, f, rev=False):
        o = SymFloat.lift(o)
        if o is None:
            return NotImplemented
        a, b = (o.f, s.f) if rev else (s.f, o.f)
        return SymFloat(f(a, b))

    def __add__(s, o): return s._bin(o, lambda a, b: z3.fpAdd(z3.RNE(), a, b))
    def __radd__(s, o): return s._bin(o, lambda a, b: z3.fpAdd(z3.RNE(), a, b), True)
    def __sub__(s, o): return s._bin(o, lambda a, b: z3.fpSub(z3.RNE(), a, b))
    def __rsub__(s, o): return s._bin(o, lambda a, b: z3.fpSub(z3.RNE(), a, b), True)
    def __mul__(s, o): return s._bin(o, lambda a, b: z3.fpMul(z3.RNE(), a, b))
    def __rmul__(s, o): return s._bin(o, lambda a, b: z3.fpMul(z3.RNE(), a, b), True)

    def __truediv__(s, o):
        o = SymFloat.lift(o)
        if o is None:
            return NotImplemented
        if SymBool(z3.fpIsZero(o.f)):
            raise ZeroDivisionError('float division by zero')
        return SymFloat(z3.fpDiv(z3.RNE(), s.f, o.f))

    def __rtruediv__(s, o):
        return SymFloat.lift(o) / s

    def __mod__(s, o):
        o = SymFloat.lift(o)
        if o is not None and s.exact is not None and o.exact is not None:
            # both operands are integers below 2^53: Python's float % is then the exact integer remainder
            if SymBool(o.exact.e == 0):
                raise ZeroDivisionError('float modulo')
            return SymFloat.lift(s.exact % o.exact)
        raise Inconclusive('float modulo of non-integers is outside the model')

    def __rmod__(s, o):
        return SymFloat.lift(o) % s

    def __neg__(s):
        return SymFloat(z3.fpNeg(s.f))

    def trunc(s) -> 'SymInt':
        if s.exact is not None:
            return s.exact
        k = min(W, 40)
        return SymInt(z3.SignExt(W - k, z3.fpToSBV(z3.RTZ(), s.f, z3.BitVecSort(k))) if k < W else
                      z3.fpToSBV(z3.RTZ(), s.f, z3.BitVecSort(W)))

    def _cmp(s, o, f):
        o = SymFloat.lift(o)
        if o is None:
            return NotImplemented
        return SymBool(f(s.f, o.f))

    def __lt__(s, o): return s._cmp(o, z3.fpLT)
    def __le__(s, o): return s._cmp(o, z3.fpLEQ)
    def __gt__(s, o): return s._cmp(o, z3.fpGT)
    def __ge__(s, o): return s._cmp(o, z3.fpGEQ)
    def __eq__(s, o): return s._cmp(o, z3.fpEQ)
    def __ne__(s, o): return s._cmp(o, z3.fpNEQ)

    def __hash__(s):
        return 4

    def __format__(s, spec):
        return 'float'


def sym_real_float(x):
    """Replacement for the builtin `float` itself: binary64, with its rounding."""
    r = SymFloat.lift(x)
    if r is None:
        return builtins.float(x)
    return r


def sym_float(x):
    """Replacement for `fractions.Fraction` where the repo converts before `/` and `%`: exact rational, no rounding."""
    if isinstance(x, SymRat):
        return x
    if isinstance(x, SymInt):
        return SymRat(x, 1)
    return SymRat(SymInt(bvval(builtins.int(x))), 1) if float(x) == builtins.int(x) else builtins.float(x)


# --------------------------------------------------------------------------------------------
# exploration
# --------------------------------------------------------------------------------------------
class ShapeResult:
    def __init__(self, shape_id):
        self.shape_id = shape_id
        self.paths = 0
        self.decisions = 0
        self.queries = 0
        self.solver_s = 0.0
        self.wall_s = 0.0
        self.obligations = 0
        self.discharged = 0
        self.violations: list[dict] = []
        self.inconclusive: str | None = None
        self.outcomes: dict[str, int] = {}
        self.witnesses: dict[str, dict] = {}
        self.overflow_paths = 0
        self.nonterm: list[dict] = []
        self.functions: set[str] = set()
        self.samples: list = []
        self.extra: dict = {}

    def to_dict(self):
        d = dict(self.__dict__)
        d['functions'] = sorted(self.functions)
        return d


def explore(shape_id, run, judge, *, max_paths=2000, solver_timeout_ms=20000, max_decisions=4000,
            path_wall_s=60.0, wall_budget_s=None, max_violations=8, check_overflow=True,
            known_classes=None, on_model=None, profile=False, witnesses_per_class=1, smt_samples=0,
            outcome_class=lambda out: str(out[0]) if isinstance(out, tuple) else str(getattr(out, 'cls', out))
            ) -> ShapeResult:
    """run(ctx) -> outcome ;  judge(ctx, outcome) -> list[(name, z3 Bool that must hold)].

    known_classes(ctx, name) -> [(entry, z3 Bool)]: input classes of recorded findings; a violation inside
    such a class is tagged `known` and the query is repeated outside the class, so a different violation of the
    same obligation is still found.
    """
    res = ShapeResult(shape_id)
    ctx = Ctx(solver_timeout_ms, max_decisions, path_wall_s)
    Ctx.cur = ctx
    t0 = time.time()
    prof = _Profiler() if profile else None
    try:
        while True:
            ctx.start_path()
            try:
                if prof is not None and res.paths == 0:
                    prof.start()
                try:
                    out = run(ctx)
                finally:
                    if prof is not None and res.paths == 0:
                        prof.stop()
                        res.functions = prof.names
                cls = outcome_class(out)
                res.outcomes[cls] = res.outcomes.get(cls, 0) + 1
                obls = judge(ctx, out)
                no_ovf = z3.And(*ctx.obligations) if ctx.obligations else z3.BoolVal(True)
                nwit = sum(1 for k in res.witnesses if k.split('#')[0] == cls)
                if nwit < witnesses_per_class and (nwit == 0 or res.paths % 7 == 3):
                    if ctx._check(no_ovf):
                        wm = model_to_dict(ctx, ctx.solver.model())
                        wkey = cls if nwit == 0 else f'{cls}#{nwit}'
                        res.witnesses[wkey] = wm
                        if on_model is not None:
                            on_model(ctx, out, wm, ('w', wkey))
                for name, prop in obls:
                    res.obligations += 1
                    if isinstance(prop, SymBool):
                        prop = prop.e
                    if isinstance(prop, bool):
                        prop = z3.BoolVal(prop)
                    neg = z3.simplify(z3.And(no_ovf, z3.Not(prop)))
                    if z3.is_false(neg):
                        res.discharged += 1
                        continue
                    classes = known_classes(ctx, name) if known_classes is not None else []
                    extra = []
                    clean = True
                    for _round in range(len(classes) + 1):
                        if not ctx._check(neg, *extra):
                            break
                        clean = False
                        m = ctx.solver.model()
                        hit = None
                        for entry, kexpr in classes:
                            if z3.is_true(m.eval(kexpr, model_completion=True)):
                                hit = (entry, kexpr)
                                break
                        md = model_to_dict(ctx, m)
                        v = {'obligation': name, 'model': md, 'outcome': cls, 'path': res.paths,
                             'shape_id': shape_id, 'known': hit[0]['id'] if hit else None}
                        if len(res.violations) < max_violations or hit is None:
                            res.violations.append(v)
                        if hit is None:
                            break
                        extra.append(z3.Not(hit[1]))
                    if clean:
                        res.discharged += 1
                        if smt_samples and len(res.extra.setdefault('smt', [])) < smt_samples and res.obligations % 3 == 1:
                            s2 = z3.Solver()
                            s2.add(ctx.solver.assertions())
                            s2.add(neg)
                            res.extra['smt'].append(('unsat', name, s2.to_smt2()))
                if check_overflow and ctx.obligations:
                    if ctx._check(z3.Not(no_ovf)):
                        res.overflow_paths += 1
            except PathAbort:
                pass
            except NonTermination as nt:
                m = None
                try:
                    m = ctx.path_model()
                except Inconclusive:
                    pass
                res.nonterm.append({'reason': nt.reason, 'model': model_to_dict(ctx, m) if m is not None else None})
            res.paths += 1
            if not ctx.backtrack():
                break
            if res.paths >= max_paths:
                res.inconclusive = f'path bound {max_paths} reached'
                break
            if wall_budget_s is not None and time.time() - t0 > wall_budget_s:
                res.inconclusive = f'wall budget {wall_budget_s}s reached'
                break
    except Inconclusive as inc:
        res.inconclusive = inc.reason
    finally:
        Ctx.cur = None
    res.decisions = ctx.decisions
    res.queries = ctx.queries
    res.solver_s = round(ctx.solver_s, 3)
    res.wall_s = round(time.time() - t0, 3)
    return res


class _Profiler:
    """Collects the repo functions executed on a path (evidence: which real code was encoded)."""

    def __init__(self, root=None):
        self.root = root or (os.environ.get('VERIF_REPO', '/repo') + '/src/')
        self.names = set()

    def _cb(self, frame, event, arg):
        if event == 'call':
            co = frame.f_code
            fn = co.co_filename
            if fn.startswith(self.root):
                mod = fn[len(self.root):-3].replace('/', '.')
                self.names.add(f'{mod}:{co.co_qualname}')

    def start(self):
        import sys
        sys.setprofile(self._cb)

    def stop(self):
        import sys
        sys.setprofile(None)
