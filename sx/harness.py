"""Shape / environment abstractions shared by all property harnesses.

A *shape* is the concrete, finitely enumerated part of an input (program skeleton, ISA structure, field
sizes).  `Shape.run(env)` executes real repo code; under `SymEnv` the integers it obtains from `env.sym()`
are solver-backed proxies, under `ConcEnv` they are plain Python ints taken from a model, and no stub is
installed (that is the replay against the unmodified implementation).  `Shape.judge(env, outcome)` is the
oracle: z3 Booleans over the same symbols; under `ConcEnv` they simplify to constants.
"""
from __future__ import annotations

import builtins
import z3

from . import engine as E


class SymEnv:
    symbolic = True

    def __init__(self, ctx: E.Ctx):
        self.ctx = ctx

    def sym(self, name, lo=None, hi=None):
        return self.ctx.sym(name, lo, hi)

    def string(self, name):
        return self.ctx.str_sym(name)

    def z(self, name):
        v = self.ctx.symbols[name]
        for sym, val in self.ctx.bindings:      # the path fixed this symbol to a constant (K-way choice, == branch)
            if sym.eq(v):
                return val
        return v

    def assume(self, cond):
        self.ctx.assume_base(cond)


class ConcEnv:
    symbolic = False

    def __init__(self, model: dict):
        self.model = model
        self.violated_assumption = False

    def sym(self, name, lo=None, hi=None):
        v = self.model.get(name)
        if v is None:
            v = lo if lo is not None else 0
            self.model[name] = v
        return v

    def string(self, name):
        return self.model.setdefault(name, '')

    def z(self, name):
        return z3.BitVecVal(self.model[name], E.W)

    def assume(self, cond):
        if isinstance(cond, E.SymBool):
            cond = cond.e
        if isinstance(cond, bool):
            ok = cond
        else:
            ok = z3.is_true(z3.simplify(cond))
        if not ok:
            self.violated_assumption = True


def zv(x):
    """int | SymInt | z3 term -> z3 term"""
    if isinstance(x, z3.ExprRef):
        return x
    return E.Z(x)


def to_py(x):
    """Concrete value of an int / constant SymInt / constant z3 term, else None."""
    if isinstance(x, bool):
        return builtins.int(x)
    if isinstance(x, builtins.int):
        return x
    if isinstance(x, E.SymInt):
        return x.concrete()
    if isinstance(x, z3.ExprRef):
        s = z3.simplify(x)
        return s.as_signed_long() if z3.is_bv_value(s) else None
    return None


def under(model: dict, x):
    """Evaluate int | SymInt under {name: int}; unconstrained leftovers are completed with 0."""
    if isinstance(x, E.SymInt):
        e = x.e
    elif isinstance(x, z3.ExprRef):
        e = x
    else:
        return x
    subs = [(z3.BitVec(n, E.W), z3.BitVecVal(v, E.W)) for n, v in model.items()]
    r = z3.simplify(z3.substitute(e, *subs)) if subs else z3.simplify(e)
    if z3.is_bv_value(r):
        return r.as_signed_long()
    if z3.is_true(r):
        return True
    if z3.is_false(r):
        return False
    s = z3.Solver()
    s.check()
    r2 = s.model().eval(r, model_completion=True)
    if z3.is_bv_value(r2):
        return r2.as_signed_long()
    return z3.is_true(r2)


class Shape:
    """Base class; subclasses must be picklable through (cls, params)."""
    width = 64
    max_paths = 2000
    solver_timeout_ms = 60000
    kind = 'UNIT'
    max_decisions = 4000
    nonterm_is_violation = False

    def __init__(self, sid: str, **params):
        self.sid = sid
        self.params = params

    # lifecycle (temp dirs etc.)
    def setup(self, symbolic: bool):
        pass

    def teardown(self):
        pass

    def run(self, env):
        raise NotImplementedError

    def judge(self, env, outcome):
        raise NotImplementedError

    def summarize(self, outcome, model: dict):
        """JSON-able observable result of `outcome` under `model` (used to validate the encoding)."""
        raise NotImplementedError

    def cli_summary(self, model: dict):
        """Optional: the same observable obtained through the real CLI (None = not applicable)."""
        return None

    def describe(self) -> dict:
        return {'shape': self.sid, **{k: v for k, v in self.params.items() if isinstance(v, (str, int, list, dict, bool, type(None)))}}

    def expected_outcomes(self):
        """Outcome classes that must be reached on this shape (reachability twin)."""
        return []

    def known_namespace(self) -> dict:
        """Extra names (shape parameters) usable in the `when` expression of a known finding."""
        return {k: v for k, v in self.params.items() if isinstance(v, (int, bool, str))}

    def write_replay(self, model: dict, dest: str):
        """Materialise a human-runnable reproduction in `dest` (optional)."""
        pass
