"""Driver: distributes shapes over worker processes, validates witnesses and counterexamples against the
unshimmed implementation, applies the known-findings file, writes evidence, decides the exit code.

exit 0  property held on every shape explored to completion (known findings are printed, not failed)
exit 1  a reproduced violation that known_findings.json does not list   (VIOLATION line)
exit 3  the machinery cannot be trusted for this run (non-reproducing counterexample, encoding mismatch,
        failed reachability, too many inconclusive shapes)
"""
from __future__ import annotations

import fnmatch
import importlib
import json
import multiprocessing as mp
import os
import pickle
import shutil
import subprocess
import sys
import tempfile
import time
import traceback

VERIF = os.path.dirname(os.path.dirname(os.path.abspath(__file__)))
KNOWN_PATH = os.path.join(VERIF, 'known_findings.json')
REPLAY_ROOT = os.path.join(VERIF, 'replays')


def load_known(prop_id):
    try:
        data = json.load(open(KNOWN_PATH))
    except FileNotFoundError:
        return []
    return [k for k in data.get('findings', []) if k['property'] == prop_id]


# ------------------------------------------------------------------------------------------------
# worker side
# ------------------------------------------------------------------------------------------------
def _known_expr(entry, env_names):
    """Compile the `when` expression of a finding into a z3 Bool over the shape's symbols."""
    import z3
    ns = {'z3': z3, 'And': z3.And, 'Or': z3.Or, 'Not': z3.Not, 'ULT': z3.ULT, 'UGE': z3.UGE,
          'true': z3.BoolVal(True)}
    ns.update(env_names)
    r = eval(entry.get('when', 'true'), {'__builtins__': {}}, ns)
    if isinstance(r, bool):
        r = z3.BoolVal(r)
    return r


def concrete_replay(shape, model, timeout=120, mode=None):
    """Run shape concretely (no stubs) in a fresh interpreter; returns dict(summary, judged, error).
    mode='terminate': only run the real code (API and CLI) - used to tell a slow solver from a run that never ends."""
    payload = pickle.dumps((shape.__class__.__module__, shape.__class__.__name__, shape.sid, shape.params, model))
    env = dict(os.environ)
    env['PYTHONPATH'] = os.pathsep.join(([os.path.join(os.environ['VERIF_REPO'], 'src')] if os.environ.get('VERIF_REPO') else [])
                                        + [VERIF, os.path.join(VERIF, '.deps')])
    env['PYTHONDONTWRITEBYTECODE'] = '1'
    if mode:
        env['SX_REPLAY_MODE'] = mode
    try:
        p = subprocess.run([sys.executable, '-B', '-m', 'sx.concrete'], input=payload, capture_output=True,
                           env=env, timeout=timeout, cwd=VERIF)
    except subprocess.TimeoutExpired:
        return {'error': 'timeout', 'timeout': True}
    if p.returncode != 0:
        return {'error': f'replay process failed rc={p.returncode}: {p.stderr.decode(errors="replace")[-2000:]}'}
    try:
        return json.loads(p.stdout.decode().strip().splitlines()[-1])
    except Exception as e:  # noqa
        return {'error': f'unparsable replay output: {e}: {p.stdout[-500:]!r} {p.stderr[-1500:]!r}'}


_STARTED = None


def stuck_result(shape, opts, waited, decide=True):
    """the worker of this shape was killed because it did not return: decide by running the real code"""
    out = {'shape': shape.sid, 'describe': None, 'harness_errors': [], 'confirmed': [], 'known_hits': [], 'validated': 0,
           'cli_validated': 0, 'paths': 0, 'queries': 0, 'solver_s': 0.0, 'obligations': 0, 'discharged': 0, 'outcomes': {},
           'functions': [], 'decisions': 0, 'shape_wall_s': round(waited, 1),
           'inconclusive': f'no return within {waited:.0f}s (stuck inside one call)'}
    try:
        out['describe'] = shape.describe()
        if not decide:
            return out
        shape.setup(False)
        model = {n: (s.lo if s.lo is not None else 0) for n, s in shape.case.symbols().items()} if hasattr(shape, 'case') else {}
        shape.teardown()
        rep = concrete_replay(shape, model, timeout=opts.get('nonterm_timeout', 40), mode='terminate')
        if rep.get('timeout') and getattr(shape, 'nonterm_is_violation', False):
            v = {'obligation': f'{opts["prop"]}.assembly_terminates', 'model': model, 'outcome': 'nonterminating', 'path': -1,
                 'shape_id': shape.sid, 'known': None, 'real_outcome': {'kind': 'timeout'}}
            v['replay'] = save_replay(opts['prop'], shape, v, 300)
            out['confirmed'].append(v)
            out['inconclusive'] = None
        elif rep.get('timeout'):
            out['harness_errors'].append(f'the real run does not terminate within {opts.get("nonterm_timeout", 40)}s either')
    except Exception as e:  # noqa
        out['harness_errors'].append('stuck shape: ' + ''.join(traceback.format_exception(e))[-1500:])
    return out


def run_shape(args):
    shape, opts = args
    if _STARTED is not None:
        _STARTED.put((shape.sid, os.getpid(), time.time()))
    import z3
    from . import engine as E
    from .harness import SymEnv
    t0 = time.time()
    out = {'shape': shape.sid, 'describe': None, 'harness_errors': [], 'confirmed': [], 'known_hits': [],
           'validated': 0, 'cli_validated': 0}
    try:
        out['describe'] = shape.describe()
        E.set_width(shape.width)
        shape.setup(True)
        known = [k for k in opts.get('known', []) if fnmatch.fnmatch(shape.sid, k.get('shape', '*'))]
        summaries = {}

        def run(ctx):
            return shape.run(SymEnv(ctx))

        def judge(ctx, o):
            return shape.judge(SymEnv(ctx), o)

        def excl(ctx, name):
            cs = []
            for k in known:
                if fnmatch.fnmatch(name, k.get('obligation', '*')):
                    try:
                        cs.append((k, _known_expr(k, dict(ctx.symbols, **ctx.str_symbols, **shape.known_namespace()))))
                    except NameError:
                        pass        # the class is phrased over a symbol this shape does not have: not applicable here
                    except Exception as e:  # noqa
                        out['harness_errors'].append(f'known finding {k.get("id")}: bad `when`: {e}')
            return cs

        def on_model(ctx, o, model, tag):
            try:
                summaries[tag] = shape.summarize(o, model)
            except Exception as e:  # noqa
                summaries[tag] = {'summarize_error': repr(e)}

        res = E.explore(shape.sid, run, judge, max_paths=opts.get('max_paths', shape.max_paths),
                        solver_timeout_ms=shape.solver_timeout_ms,
                        wall_budget_s=opts.get('shape_wall_s'), known_classes=excl, on_model=on_model,
                        profile=opts.get('profile', False), max_decisions=shape.max_decisions,
                        witnesses_per_class=opts.get('max_witness', 2),
                        smt_samples=opts.get('smt_samples', 0) if (hash(shape.sid) % opts.get('smt_every', 1) == 0) else 0)
        d = res.to_dict()
        out.update(d)
        out['second_solver'] = second_solver(res.extra.get('smt', []))
        for nm, verdicts in out['second_solver']:
            bad = [f'{k}={v}' for k, v in verdicts.items() if v == 'sat']
            if bad:
                out['harness_errors'].append(f'second solver disagrees on a discharged obligation {nm}: {bad}')
        # ---- reachability: the harness must reach its assertion on at least one path -------------
        if res.inconclusive is None and res.obligations == 0 and not res.nonterm:
            out['harness_errors'].append('no path reached an obligation (vacuous harness)')
        # ---- witness replay (encoding validation) ----------------------------------------------
        if opts.get('replay_witnesses', True):
            for cls, model in list(res.witnesses.items())[:2 * opts.get('max_witness', 3)]:
                rep = concrete_replay(shape, model)
                if rep.get('error'):
                    out['harness_errors'].append(f'witness replay {cls}: {rep["error"]}')
                    continue
                sym_sum = summaries.get(('w', cls))
                if rep['summary'] != sym_sum:
                    out['harness_errors'].append(
                        f'encoding mismatch on witness {cls} model={model}: symbolic={sym_sum} real={rep["summary"]}')
                else:
                    out['validated'] += 1
                bad_cli = [n for n, ok in (rep.get('cli_judged') or {}).items() if ok is False]
                if bad_cli:
                    # the real command line violates an obligation that is stated at that level (exit status / image file)
                    v = {'obligation': bad_cli[0], 'model': model, 'outcome': cls, 'path': -1, 'shape_id': shape.sid,
                         'known': None, 'real_outcome': {'api': rep['summary'], 'cli': rep['cli']}}
                    v['replay'] = save_replay(opts['prop'], shape, v, 200 + len(out['confirmed']))
                    out['confirmed'].append(v)
                elif rep.get('cli') is not None:
                    if rep['cli_agrees']:
                        out['cli_validated'] += 1
                    else:
                        out['harness_errors'].append(
                            f'API/CLI disagreement on witness {cls} model={model}: api={rep["summary"]} cli={rep["cli"]}')
        # ---- counterexample replay -------------------------------------------------------------
        for i, v in enumerate(res.violations):
            rep = concrete_replay(shape, v['model'])
            name = v['obligation']
            if rep.get('timeout'):
                rep = {'judged': {name: False}, 'summary': {'kind': 'timeout'}, 'assumption_violated': False}
            if rep.get('error'):
                out['harness_errors'].append(f'counterexample replay failed: {rep["error"]}')
                continue
            judged = rep['judged']
            if rep.get('assumption_violated'):
                out['harness_errors'].append(f'counterexample violates a harness assumption: {v}')
                continue
            if judged.get(name, True) is False:
                v = dict(v)
                v['real_outcome'] = rep['summary']
                if v.get('known'):
                    out['known_hits'].append(v)
                else:
                    v['replay'] = save_replay(opts['prop'], shape, v, i)
                    out['confirmed'].append(v)
            else:
                out['harness_errors'].append(
                    f'counterexample did not reproduce on the real code: {v} real={rep["summary"]} judged={judged}')
        need = set(shape.expected_outcomes())
        missing = need - set(res.outcomes)
        if res.inconclusive is None and missing and not out['known_hits']:
            out['harness_errors'].append(f'reachability: outcome classes never reached: {sorted(missing)}')
        for i, nt in enumerate(res.nonterm):
            if nt.get('model') is None:
                out['harness_errors'].append(f'path budget exhausted and no model for the path: {nt}')
                continue
            # candidate non-termination: replay the path's model against the real CLI under a time limit
            rep = concrete_replay(shape, nt['model'], timeout=opts.get('nonterm_timeout', 40), mode='terminate')
            if rep.get('timeout') and shape.nonterm_is_violation:
                v = {'obligation': f'{opts["prop"]}.assembly_terminates', 'model': nt['model'], 'outcome': 'nonterminating',
                     'path': -1, 'shape_id': shape.sid, 'known': None, 'real_outcome': {'kind': 'timeout'}}
                v['replay'] = save_replay(opts['prop'], shape, v, 100 + i)
                out['confirmed'].append(v)
            elif rep.get('timeout'):
                out['harness_errors'].append(f'path budget exhausted and the real run does not terminate either: {nt}')
            elif shape.nonterm_is_violation and 'decisions' in str(nt.get('reason')):
                out['harness_errors'].append(f'symbolic decision budget exhausted but the real run terminates: {nt}')
            else:
                # the solver was slow on this path; the real code terminates on the path's model: no verdict
                out['inconclusive'] = out.get('inconclusive') or f'path budget exhausted ({nt.get("reason")}); real run terminates'
    except Exception as e:  # noqa
        out['harness_errors'].append('worker exception: ' + ''.join(traceback.format_exception(e))[-3000:])
    finally:
        try:
            shape.teardown()
        except Exception:  # noqa
            pass
    out['shape_wall_s'] = round(time.time() - t0, 3)
    out.pop('extra', None)
    return out


def second_solver(samples, tlimit=20):
    """re-decide sampled final queries (SMT-LIB2 text) with the cvc5 binary and the system z3 4.8.12"""
    out = []
    for expected, name, text in samples:
        verdicts = {}
        with tempfile.NamedTemporaryFile('w', suffix='.smt2', delete=False) as f:
            f.write(text)
            path = f.name
        try:
            for tool, cmd in (('cvc5', ['cvc5', f'--tlimit={tlimit * 1000}', path]), ('z3-4.8', ['/usr/bin/z3', f'-T:{tlimit}', path])):
                try:
                    p = subprocess.run(cmd, capture_output=True, text=True, timeout=tlimit + 10)
                    o = (p.stdout + p.stderr).strip().splitlines()
                    if any('(error' in ln for ln in o):
                        verdicts[tool] = 'error'            # inconclusive (unsupported construct), never a verdict
                    else:
                        first = o[0].strip() if o else ''
                        verdicts[tool] = first if first in ('sat', 'unsat', 'unknown') else 'unknown'
                except (subprocess.TimeoutExpired, FileNotFoundError):
                    verdicts[tool] = 'timeout'
        finally:
            os.unlink(path)
        out.append((name, verdicts))
    return out


def save_replay(prop, shape, v, i):
    d = os.path.join(REPLAY_ROOT, prop, f'{_safe(shape.sid)}_{i}')
    shutil.rmtree(d, ignore_errors=True)
    os.makedirs(d, exist_ok=True)
    with open(os.path.join(d, 'case.pkl'), 'wb') as f:
        pickle.dump((shape.__class__.__module__, shape.__class__.__name__, shape.sid, shape.params, v['model']), f)
    with open(os.path.join(d, 'violation.json'), 'w') as f:
        json.dump({'property': prop, 'shape': shape.describe(), **{k: v[k] for k in v if k != 'replay'}}, f,
                  indent=1, default=str)
    try:
        shape.write_replay(v['model'], d)
    except Exception as e:  # noqa
        with open(os.path.join(d, 'write_replay_error.txt'), 'w') as f:
            f.write(repr(e))
    return d


def _safe(s):
    return ''.join(c if c.isalnum() or c in '-_.' else '_' for c in s)[:120]


# ------------------------------------------------------------------------------------------------
# main side
# ------------------------------------------------------------------------------------------------
def run_property(mod, tier, seed, replay_path=None):
    prop = mod.ID
    t0 = time.time()
    if replay_path:
        return do_replay(prop, replay_path)
    known = load_known(prop)
    shapes = mod.shapes(tier, seed)
    budget = mod.BUDGET_S[tier]
    opts = {'prop': prop, 'known': known, 'profile': True,
            'max_witness': 2 if tier == 'quick' else 4,
            'smt_samples': 1 if tier == 'quick' else 2, 'smt_every': 7 if tier == 'quick' else 5,
            'shape_wall_s': mod.SHAPE_WALL_S[tier] if hasattr(mod, 'SHAPE_WALL_S') else budget / 2}
    nproc = int(os.environ.get('VERIF_JOBS', os.cpu_count() or 4))
    results, unexplored = [], 0
    shutil.rmtree(os.path.join(REPLAY_ROOT, prop), ignore_errors=True)
    # all scratch files of this run (workers and replay subprocesses) live in one directory that is removed at the end,
    # also when a worker is terminated at its budget
    import tempfile
    scratch = tempfile.mkdtemp(prefix=f'sxrun_{prop}_')
    old_tmp = os.environ.get('TMPDIR')
    tempfile.tempdir = scratch
    os.environ['TMPDIR'] = scratch
    try:
        return _run_property(mod, tier, seed, prop, t0, known, shapes, budget, opts, nproc, results, unexplored)
    finally:
        tempfile.tempdir = None
        os.environ.pop('TMPDIR', None)
        if old_tmp is not None:
            os.environ['TMPDIR'] = old_tmp
        shutil.rmtree(scratch, ignore_errors=True)


def _run_property(mod, tier, seed, prop, t0, known, shapes, budget, opts, nproc, results, unexplored):
    if getattr(mod, 'SERIAL', False) or nproc == 1:
        for s in shapes:
            if time.time() - t0 > budget:
                unexplored += 1
                continue
            results.append(run_shape((s, opts)))
    else:
        # one fresh forked process per shape: solver state (and therefore solver time) does not depend on which
        # shapes a worker happened to run before; heavy modules are imported once, here, and inherited
        import z3  # noqa
        import bespokeasm.assembler.engine  # noqa
        import bespokeasm.assembler.model  # noqa
        ctxm = mp.get_context('fork')
        global _STARTED
        _STARTED = ctxm.SimpleQueue()           # workers announce (shape id, pid, time) when they take a shape
        by_sid = {s.sid: s for s in shapes}
        started, finished = {}, set()
        stuck_after = opts.get('shape_wall_s', budget) * 1.2 + 20
        with ctxm.Pool(min(nproc, max(1, len(shapes))), maxtasksperchild=1) as pool:
            it = pool.imap_unordered(run_shape, [(s, opts) for s in shapes], chunksize=1)
            done = 0
            while done < len(shapes):
                left = budget - (time.time() - t0)
                if left <= 0:
                    unexplored = len(shapes) - done
                    pool.terminate()
                    break
                try:
                    r = it.next(timeout=min(5.0, max(1.0, left)))
                    results.append(r)
                    finished.add(r['shape'])
                    done += 1
                except mp.TimeoutError:
                    pass
                except StopIteration:
                    break
                # a worker that does not come back: the code under analysis is stuck inside one call (e.g. a regular
                # expression) where no path budget can be checked
                while not _STARTED.empty():
                    sid, pid, ts = _STARTED.get()
                    started[sid] = (pid, ts)
                for sid, (pid, ts) in list(started.items()):
                    if sid in finished or time.time() - ts < stuck_after:
                        continue
                    try:
                        os.kill(pid, 9)
                    except OSError:
                        pass
                    finished.add(sid)
                    done += 1
                    # (the real-code run that decides a stuck shape takes up to 40 s: at most three of them per check)
                    n_stuck = sum(1 for r in results if str(r.get('inconclusive') or '').startswith('no return') or
                                  any(v.get('outcome') == 'nonterminating' for v in r['confirmed']))
                    results.append(stuck_result(by_sid[sid], opts, time.time() - ts, decide=n_stuck < 3))
    extra_errors = []
    if hasattr(mod, 'extra_checks'):
        try:
            extra_errors = mod.extra_checks(tier, seed) or []
        except Exception as e:  # noqa
            extra_errors = ['extra_checks raised: ' + ''.join(traceback.format_exception(e))[-2000:]]
    return finish(mod, tier, seed, shapes, results, unexplored, known, time.time() - t0, extra_errors)


def finish(mod, tier, seed, shapes, results, unexplored, known, wall, extra_errors):
    prop = mod.ID
    confirmed = [v for r in results for v in r['confirmed']]
    known_hits = [v for r in results for v in r['known_hits']]
    herrs = [(r['shape'], e) for r in results for e in r['harness_errors']] + [('-', e) for e in extra_errors]
    inconc = [(r['shape'], r.get('inconclusive')) for r in results if r.get('inconclusive')]
    conclusive = [r for r in results if not r.get('inconclusive') and not r['harness_errors']]
    funcs = sorted({f for r in results for f in r.get('functions', [])})
    paths = sum(r.get('paths', 0) for r in results)
    queries = sum(r.get('queries', 0) for r in results)
    solver_s = round(sum(r.get('solver_s', 0) for r in results), 2)
    obligations = sum(r.get('obligations', 0) for r in results)
    discharged = sum(r.get('discharged', 0) for r in results)
    decisions = sum(r.get('decisions', 0) for r in results)
    outcomes = {}
    for r in results:
        for k, v in (r.get('outcomes') or {}).items():
            outcomes[k] = outcomes.get(k, 0) + v
    samples = []
    for r in results[:400]:
        if r.get('describe') and len(samples) < 6:
            samples.append({'shape': r['describe'], 'paths': r.get('paths'), 'outcomes': r.get('outcomes'),
                            'obligations': r.get('obligations'), 'witnesses': r.get('witnesses')})
    # ---- verdict ---------------------------------------------------------------------------------
    rc = 0
    lines = []
    seen_known = {}
    for v in known_hits:
        seen_known.setdefault(v['known'], v)
    for k in known:
        if k['id'] in seen_known:
            lines.append(f'KNOWN-FINDING: property={prop} {k["id"]}: {k["what"]}')
        else:
            lines.append(f'note: known finding {k["id"]} of {prop} was not reproduced in this run '
                         f'(not reached in this tier, or no longer present)')
    if confirmed:
        rc = 1
        for v in confirmed[:10]:
            lines.append(f'VIOLATION property={prop} replay={v["replay"]}')
            lines.append(f'  shape={v.get("shape_id", "")} obligation={v["obligation"]} model={v["model"]} '
                         f'real={json.dumps(v.get("real_outcome"), default=str)[:300]}')
    n = len(results)
    if herrs:
        rc = rc or 3
        for s, e in herrs[:12]:
            lines.append(f'HARNESS-ERROR {prop} shape={s}: {e[:1500]}')
    if not confirmed and not herrs:
        if n == 0 or not conclusive:
            rc = 3
            lines.append(f'HARNESS-ERROR {prop}: no shape was explored to completion')
        elif len(inconc) > 0.2 * n:
            rc = 3
            lines.append(f'HARNESS-ERROR {prop}: {len(inconc)}/{n} shapes inconclusive: {inconc[:5]}')
        elif unexplored > 0.2 * len(shapes):
            rc = 3
            lines.append(f'HARNESS-ERROR {prop}: {unexplored}/{len(shapes)} shapes not explored within the budget of {mod.BUDGET_S[tier]}s')
    for s, why in inconc[:10]:
        lines.append(f'inconclusive: shape={s}: {why}')
    ev = {
        'property_id': prop, 'tier': tier, 'seed': seed, 'level': 'model_checking',
        'coverage': {
            'states': max(paths, 0), 'transitions': max(decisions + obligations, 0), 'branch_decisions': decisions,
            'traces_validated_against_impl': sum(r['validated'] for r in results),
            'cli_runs_validated': sum(r['cli_validated'] for r in results),
            'samples': samples or [{'note': 'no shape completed'}],
            'shapes_in_family': len(shapes), 'shapes_explored': n, 'shapes_conclusive': len(conclusive),
            'shapes_inconclusive': len(inconc), 'shapes_not_explored': unexplored,
            'symbolic_paths': paths, 'solver_queries': queries, 'solver_seconds': solver_s,
            'obligations': obligations, 'discharged': discharged,
            'outcome_classes': outcomes,
            'overflow_reachable_paths': sum(r.get('overflow_paths', 0) for r in results),
            'second_solver': _second_summary(results),
            'functions_encoded': funcs,
            'stubs': getattr(mod, 'STUBS', None),
            'bounds': mod.BOUNDS, 'family': mod.FAMILY,
            'known_findings_hit': sorted(seen_known),
            'inconclusive_shapes': inconc[:50],
            'harness_errors': [f'{s}: {e[:300]}' for s, e in herrs[:20]],
            'rule': 'states = symbolic paths explored to their end (each stands for all inputs satisfying its '
                    'path condition); transitions = solver-decided branch points plus path-end obligations put to the solver; every path end discharges the '
                    'listed obligations with z3 (unsat = holds for all values within bounds)',
            'exhaustive': False,
            'solver': 'z3 ' + _z3_version(),
        },
        'assumptions': mod.ASSUMPTIONS,
        'wall_s': round(wall, 2),
        'violations': len(confirmed),
    }
    if ev['coverage']['states'] < 1:
        ev['coverage']['states'] = 0
    os.makedirs(os.path.join(VERIF, 'evidence'), exist_ok=True)
    with open(os.path.join(VERIF, 'evidence', f'{prop}.json'), 'w') as f:
        json.dump(ev, f, indent=1, default=str)
    slow = sorted(((r.get('shape_wall_s', 0), r['shape']) for r in results), reverse=True)[:4]
    ev['coverage']['slowest_shapes'] = slow
    with open(os.path.join(VERIF, 'evidence', f'{prop}.json'), 'w') as f:
        json.dump(ev, f, indent=1, default=str)
    for ln in lines:
        print(ln)
    print('slowest shapes:', slow)
    print(f'{prop} tier={tier} shapes={n}/{len(shapes)} conclusive={len(conclusive)} inconclusive={len(inconc)} '
          f'unexplored={unexplored} paths={paths} queries={queries} solver_s={solver_s} obligations={obligations} '
          f'discharged={discharged} validated={ev["coverage"]["traces_validated_against_impl"]} '
          f'violations={len(confirmed)} known={sorted(seen_known)} wall={wall:.1f}s rc={rc}')
    return rc


def _second_summary(results):
    tot = {'queries': 0, 'cvc5': {}, 'z3-4.8': {}}
    for r in results:
        for nm, verdicts in r.get('second_solver') or []:
            tot['queries'] += 1
            for k, v in verdicts.items():
                tot[k][v] = tot[k].get(v, 0) + 1
    tot['note'] = 'sampled discharged obligations re-decided by the cvc5 1.0 binary and /usr/bin/z3 4.8.12; `sat` from either would be a harness error'
    return tot


def _z3_version():
    try:
        import z3
        return z3.get_version_string()
    except Exception:  # noqa
        return '?'


def do_replay(prop, path):
    case = os.path.join(path, 'case.pkl')
    modn, clsn, sid, params, model = pickle.load(open(case, 'rb'))
    mod = importlib.import_module(modn)
    shape = getattr(mod, clsn)(sid, **params)
    rep = concrete_replay(shape, model)
    print(json.dumps(rep, indent=1, default=str))
    name = json.load(open(os.path.join(path, 'violation.json')))['obligation']
    if rep.get('error') and not rep.get('timeout'):
        return 3
    judged = dict(rep.get('judged') or {})
    judged.update(rep.get('cli_judged') or {})
    if rep.get('timeout') or judged.get(name, True) is False:
        print(f'VIOLATION property={prop} replay={path}')
        return 1
    print('replay: the recorded input no longer violates the property')
    return 0
