import argparse
import importlib
import os
import sys


def main():
    ap = argparse.ArgumentParser()
    ap.add_argument('prop')
    ap.add_argument('--tier', default=os.environ.get('VERIF_TIER', 'quick'), choices=['quick', 'thorough'])
    ap.add_argument('--replay', default=None)
    a = ap.parse_args()
    seed = int(os.environ.get('VERIF_SEED', '0') or 0)
    mod = importlib.import_module('props.' + a.prop.lower())
    from sx import runner
    rc = runner.run_property(mod, a.tier, seed, a.replay)
    sys.exit(rc)


if __name__ == '__main__':
    main()
