"""Proxy self-test: every SymInt / SymRat / sym_int operation is compared with CPython on boundary and random
operands.  Operands are *symbolic* variables pinned by solver assumptions, so the general (range-unknown) code
path of each proxy operation is the one exercised, including its forks."""
from __future__ import annotations

import fractions
import operator
import random

import z3

from . import engine as E


def _eval(ctx, term):
    m = ctx.path_model()
    if isinstance(term, E.SymInt):
        return m.eval(term.e, model_completion=True).as_signed_long()
    if isinstance(term, E.SymBool):
        return z3.is_true(m.eval(term.e, model_completion=True))
    if isinstance(term, E.SymRat):
        n = m.eval(term.n.e, model_completion=True).as_signed_long()
        d = m.eval(term.d.e, model_completion=True).as_signed_long()
        return fractions.Fraction(n, d)
    return term


def _with(vals, fn, ranged=False):
    """run fn(proxies...) with symbolic operands pinned to vals; returns (kind, value)"""
    ctx = E.Ctx(solver_timeout_ms=20000)
    E.Ctx.cur = ctx
    try:
        ctx.start_path()
        xs = []
        for i, v in enumerate(vals):
            if ranged:
                xs.append(ctx.sym(f'x{i}', v, v))
            else:
                x = ctx.sym(f'x{i}')
                ctx.assume_base(x.e == E.bvval(v))
                xs.append(x)
        try:
            r = fn(*xs)
        except E.EngineSignal as e:
            return ('engine', type(e).__name__)
        except Exception as e:  # noqa
            return ('raise', type(e).__name__)
        if ctx.obligations:
            m = ctx.path_model()
            if not z3.is_true(m.eval(z3.And(*ctx.obligations), model_completion=True)):
                return ('overflow', None)
        if isinstance(r, (list, tuple)):
            return ('ok', [_eval(ctx, t) for t in r])
        return ('ok', _eval(ctx, r))
    finally:
        E.Ctx.cur = None


def _py(vals, fn):
    try:
        r = fn(*vals)
    except Exception as e:  # noqa
        return ('raise', type(e).__name__)
    if isinstance(r, (bytes, bytearray, list, tuple)):
        return ('ok', list(r))
    return ('ok', r)


def run(width=64, n_random=8, seed=0):
    E.set_width(width)
    rnd = random.Random(seed)
    lim = 1 << (width // 2 - 2)
    edge = [v for v in [0, 1, -1, 2, -2, 7, -7, 8, 255, 256, -255, -256, 127, 128, -128, -129, 65535, 65536, lim - 1, -lim]
            if abs(v) <= lim] + [(1 << (width - 2)) + 5, -(1 << (width - 2)) - 7]
    pairs = [(a, b) for a in edge for b in edge[:8] + edge[-2:]]
    pairs += [(rnd.randint(-lim, lim), rnd.randint(-lim, lim)) for _ in range(n_random)]
    small = [(a, k) for a in edge for k in (0, 1, 3, 7, 8, 12, 31)]
    binops = {
        'add': operator.add, 'sub': operator.sub, 'mul': operator.mul, 'floordiv': operator.floordiv,
        'mod': operator.mod, 'and': operator.and_, 'or': operator.or_, 'xor': operator.xor,
        'lt': operator.lt, 'le': operator.le, 'gt': operator.gt, 'ge': operator.ge, 'eq': operator.eq, 'ne': operator.ne,
        'radd': lambda a, b: 5 + a + b, 'rsub': lambda a, b: 1000 - a - b, 'rmul': lambda a, b: 3 * a * b,
        'divmod': lambda a, b: list(divmod(a, b)),
    }
    failures = []
    count = 0

    def cmp(name, vals, pf, cf=None, ranged=False):
        nonlocal count
        count += 1
        got = _with(vals, pf, ranged)
        exp = _py(vals, cf or pf)
        top = 1 << (width - 1)
        flat = exp[1] if isinstance(exp[1], list) else [exp[1]]
        if exp[0] == 'ok' and any(isinstance(v, int) and not (-top <= v < top) for v in flat):
            exp = ('overflow', None)        # the proxy must flag it, never return a wrapped value silently
        if got[0] == 'overflow' and exp[0] == 'ok' and any(abs(v) * abs(w) >= top for v in vals for w in vals):
            got = exp                       # an intermediate product left the vector: flagged, acceptable
        if got == ('engine', 'Inconclusive'):
            return                          # the proxy declined (wider than the vector): never a wrong value
        if got != exp:
            failures.append(f'{name}{vals}{" [ranged]" if ranged else ""}: proxy={got} python={exp}')
    for nm, f in binops.items():
        for vals in pairs:
            for ranged in (False, True):
                cmp(nm, vals, f, ranged=ranged)
    for vals in small:
        for ranged in (False, True):
            cmp('lshift', vals, operator.lshift, ranged=ranged)
            cmp('rshift', vals, operator.rshift, ranged=ranged)
            cmp('rpow', (vals[1],), lambda k: 2 ** k, ranged=ranged)
    for a, k in [(5, -1), (-5, -3)]:
        cmp('lshift-neg', (a, k), operator.lshift)
        cmp('rshift-neg', (a, k), operator.rshift)
    for a in edge + [rnd.randint(-lim, lim) for _ in range(n_random)]:
        for ranged in (False, True):
            cmp('neg', (a,), operator.neg, ranged=ranged)
            cmp('abs', (a,), abs, ranged=ranged)
            cmp('invert', (a,), operator.invert, ranged=ranged)
            cmp('bit_length', (a,), lambda x: x.bit_length(), ranged=ranged)
            cmp('bool', (a,), lambda x: 1 if x else 0, ranged=ranged)
            for n in (0, 1, 2, 3, 4):
                for order in ('big', 'little'):
                    for signed in (False, True):
                        cmp(f'to_bytes({n},{order},{signed})', (a,),
                            lambda x, n=n, order=order, signed=signed: x.to_bytes(n, byteorder=order, signed=signed),
                            ranged=ranged)
            cmp('to_bytes-signed-if-negative', (a,), lambda x: x.to_bytes(3, byteorder='big', signed=(x < 0)), ranged=ranged)
            cmp('lsb-idiom', (a,), lambda x: (x & (2 ** (8 * max((abs(x).bit_length() + 7) // 8, 1)) - 1)).to_bytes(
                max((abs(x).bit_length() + 7) // 8, 1), byteorder='little', signed=False)[0], ranged=ranged)
    # from_bytes (through the int replacement)
    for bs in ([0], [1, 2], [255, 255, 1], [128, 0], [0x12, 0x34, 0x56, 0x78]):
        for order in ('big', 'little'):
            for signed in (False, True):
                count += 1
                got = _with(bs, lambda *xs: E.sym_int.from_bytes(list(xs), order, signed=signed))
                exp = ('ok', int.from_bytes(bytes(bs), order, signed=signed))
                if got != exp and got != ('engine', 'Inconclusive'):
                    failures.append(f'from_bytes({bs},{order},{signed}): proxy={got} python={exp}')
    # rationals: the replacement for Fraction / float in the expression evaluator
    F = fractions.Fraction
    ratops = {'truediv': operator.truediv, 'add': operator.add, 'sub': operator.sub, 'mul': operator.mul, 'mod': operator.mod,
              'lt': operator.lt, 'le': operator.le, 'gt': operator.gt, 'ge': operator.ge, 'eq': operator.eq}
    triples = [(a, b, c) for a in (0, 1, -1, 7, -7, 61, 100) for b in (1, -1, 3, -3, 23, 49) for c in (1, 2, -5, 46, 49)]
    for nm, f in ratops.items():
        for (a, b, c) in triples:
            count += 1
            got = _with((a, b, c), lambda x, y, z, f=f: f(E.sym_float(x) / E.sym_float(y), E.sym_float(z)))
            exp = _py((a, b, c), lambda x, y, z, f=f: f(F(x) / F(y), F(z)))
            if got != exp:
                failures.append(f'rat.{nm}{(a, b, c)}: proxy={got} python={exp}')
            count += 1
            got = _with((a, b, c), lambda x, y, z, f=f: E.sym_int(f(E.sym_float(x) / E.sym_float(y), E.sym_float(z)))
                        if nm in ('truediv', 'add', 'sub', 'mul', 'mod') else 0)
            exp = _py((a, b, c), lambda x, y, z, f=f: int(f(F(x) / F(y), F(z))) if nm in ('truediv', 'add', 'sub', 'mul', 'mod') else 0)
            if got != exp:
                failures.append(f'int(rat.{nm}){(a, b, c)}: proxy={got} python={exp}')
    return count, failures


if __name__ == '__main__':
    import sys
    import multiprocessing as mp
    tot = 0
    bad = []
    widths = (24, 48, 64, 96)
    with mp.get_context('fork').Pool(len(widths)) as pool:
        for w, (c, f) in zip(widths, pool.map(run, widths)):
            tot += c
            bad += [f'W={w} ' + x for x in f]
    print('proxy self-test:', tot, 'comparisons,', len(bad), 'failures')
    for x in bad[:40]:
        print('  ', x)
    if not bad and len(sys.argv) > 1:
        import hashlib, json, os
        h = hashlib.sha256(open(os.path.join(os.path.dirname(__file__), 'engine.py'), 'rb').read()).hexdigest()
        json.dump({'engine_sha256': h, 'comparisons': tot}, open(sys.argv[1], 'w'))
    sys.exit(1 if bad else 0)
