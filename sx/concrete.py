"""Concrete replay of one shape under one model against the *unshimmed* repo (fresh interpreter, no stubs).

stdin: pickle (module, class, sid, params, model)   stdout (last line): JSON {summary, judged, cli, cli_agrees}
"""
import importlib
import json
import os
import pickle
import sys

import z3

from . import engine as E
from .harness import ConcEnv


def main():
    modn, clsn, sid, params, model = pickle.loads(sys.stdin.buffer.read())
    mod = importlib.import_module(modn)
    shape = getattr(mod, clsn)(sid, **params)
    E.set_width(shape.width)
    shape.setup(False)
    try:
        env = ConcEnv(dict(model))
        out = shape.run(env)
        if os.environ.get('SX_REPLAY_MODE') == 'terminate':
            # only asked whether the real run comes to an end on this input (API and command line)
            cli = shape.cli_summary(env.model)
            print(json.dumps({'terminated': True, 'cli': cli}, default=str))
            return
        judged = {}
        for name, prop in shape.judge(env, out):
            if isinstance(prop, E.SymBool):
                prop = prop.e
            if isinstance(prop, bool):
                judged[name] = judged.get(name, True) and prop
                continue
            r = z3.simplify(prop)
            if z3.is_true(r):
                ok = True
            elif z3.is_false(r):
                ok = False
            else:
                s = z3.Solver()
                ok = (s.check(z3.Not(r)) == z3.unsat)
            judged[name] = judged.get(name, True) and ok
        summary = shape.summarize(out, env.model)
        cli = shape.cli_summary(env.model)
        cli_judged = shape.judge_cli(summary, cli) if (cli is not None and hasattr(shape, 'judge_cli')) else {}
        res = {'summary': summary, 'judged': judged, 'cli': cli, 'cli_judged': cli_judged,
               'cli_agrees': None if cli is None else shape.cli_agrees(summary, cli),
               'assumption_violated': env.violated_assumption}
    finally:
        shape.teardown()
    print(json.dumps(res, default=str))


if __name__ == '__main__':
    main()
