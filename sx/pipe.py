"""PIPE harness plumbing: run the real `Assembler(...).assemble_bytecode()` on a concrete program / ISA *shape*
with symbolic integers injected through the assembler's own channels, and replay models through the real CLI."""
from __future__ import annotations

import builtins
import copy
import os
import shutil
import subprocess
import sys
import tempfile

import z3

from . import engine as E
from . import shims


# the tree under analysis: /repo unless VERIF_REPO names another checkout (used to evaluate a change in a scratch copy)
REPO_SRC = os.path.join(os.environ.get('VERIF_REPO', '/repo'), 'src')


class Sym:
    """Placeholder for a symbolic integer inside a shape (ISA dictionary leaf, CLI value)."""

    def __init__(self, name, lo=None, hi=None):
        self.name, self.lo, self.hi = name, lo, hi

    def __repr__(self):
        return f'Sym({self.name},{self.lo},{self.hi})'


class SymVer:
    """Placeholder for a version string `a.b.c[b1]` whose components are symbolic integers (C19)."""

    def __init__(self, name, hi=1000):
        self.name, self.hi = name, hi

    def parts(self):
        return [Sym(f'{self.name}_{k}', 0, self.hi) for k in ('maj', 'min', 'pat')] + [Sym(f'{self.name}_pre', 0, 1)]

    def text(self, model):
        a, b, c, pre = (model.get(s.name, 0) for s in self.parts())
        return f'{a}.{b}.{c}' + ('b1' if pre else '')

    def __repr__(self):
        return f'SymVer({self.name})'


def materialize(obj, f):
    if isinstance(obj, (Sym, SymVer)):
        return f(obj)
    if isinstance(obj, dict):
        return {k: materialize(v, f) for k, v in obj.items()}
    if isinstance(obj, list):
        return [materialize(v, f) for v in obj]
    if isinstance(obj, tuple):
        return tuple(materialize(v, f) for v in obj)
    return obj


def collect_syms(obj, acc=None):
    acc = {} if acc is None else acc
    if isinstance(obj, Sym):
        acc[obj.name] = obj
    elif isinstance(obj, SymVer):
        for s in obj.parts():
            acc[s.name] = s
    elif isinstance(obj, dict):
        for v in obj.values():
            collect_syms(v, acc)
    elif isinstance(obj, (list, tuple)):
        for v in obj:
            collect_syms(v, acc)
    return acc


class LineInfo:
    __slots__ = ('idx', 'file', 'line_num', 'cls', 'address', 'byte_size', 'bytes', 'is_muted', 'compilable',
                 'instruction', 'label', 'label_value', 'is_constant', 'zone')

    def __repr__(self):
        return f'<{self.cls} {self.file}:{self.line_num} @{self.address} size={self.byte_size} {self.instruction!r}>'


class Outcome:
    def __init__(self, kind, msg='', image=None, opens=0, lines=None, stdout='', pretty=None):
        self.kind = kind            # 'ok' | 'exit' | 'exc'
        self.msg = msg
        self.image = image          # list of int | SymInt, or None when nothing was written
        self.opens = opens          # number of times the binary output was opened for writing
        self.lines = lines or []
        self.stdout = stdout
        self.pretty = pretty

    @property
    def cls(self):
        """outcome class used for reachability: accepted vs rejected (clean error or uncaught exception)"""
        return 'ok' if self.kind == 'ok' else 'rejected'

    def __getitem__(self, i):       # outcome_class() convenience
        return (self.kind,)[i]

    def __repr__(self):
        return f'Outcome({self.kind}, {self.msg[:60]!r}, image={None if self.image is None else len(self.image)})'


_captured_lines = {'top': None, 'predef': []}
_patched = False


def _patch_capture():
    global _patched
    if _patched:
        return
    from bespokeasm.assembler.assembly_file import AssemblyFile
    from bespokeasm.assembler.line_object.predefined_data import PredefinedDataLine
    orig = AssemblyFile.load_line_objects

    def load_line_objects(self, *a, **k):
        r = orig(self, *a, **k)
        _captured_lines['top'] = r
        return r
    load_line_objects.__wrapped_orig__ = orig
    AssemblyFile.load_line_objects = load_line_objects
    oinit = PredefinedDataLine.__init__

    def __init__(self, *a, **k):
        oinit(self, *a, **k)
        _captured_lines['predef'].append(self)
    PredefinedDataLine.__init__ = __init__
    _patched = True


def _reset_defaults():
    from bespokeasm.assembler.assembly_file import AssemblyFile
    f = AssemblyFile.load_line_objects
    orig = getattr(f, '__wrapped_orig__', None)
    if orig is not None:
        orig.__defaults__ = tuple(set() if isinstance(x, set) else x for x in orig.__defaults__)


def line_infos(lobjs) -> list[LineInfo]:
    from bespokeasm.assembler.line_object import LineWithBytes
    from bespokeasm.assembler.line_object.label_line import LabelLine
    out = []
    for i, lo in enumerate(lobjs):
        li = LineInfo()
        li.idx = i
        li.file = os.path.basename(lo.line_id.filename or '')
        li.line_num = lo.line_id.line_num
        li.cls = type(lo).__name__
        li.compilable = lo.compilable
        li.is_muted = lo.is_muted
        li.instruction = lo.instruction
        li.zone = lo.memory_zone.name if lo.memory_zone is not None else None
        li.label = None
        li.label_value = None
        li.is_constant = False
        li.address = None
        li.byte_size = None
        li.bytes = None
        if lo.compilable:
            li.address = lo.address
            li.byte_size = lo.byte_size
            if isinstance(lo, LineWithBytes):
                b = lo.get_bytes()
                li.bytes = list(b) if b is not None else None
            if isinstance(lo, LabelLine):
                li.label = lo.get_label()
                li.is_constant = lo.is_constant
                li.label_value = lo.get_value()
        out.append(li)
    return out


class PipeCase:
    """One concrete shape: ISA dictionary (with `Sym` leaves), source files, window arguments."""

    def __init__(self, config: dict, files: dict, main='main.asm', start=0, end=None, fill=0,
                 pretty=None, include_dirs=(), predefined=(), binary=True, want_lines=True, extra_dirs=None):
        self.config = config
        self.files = files                      # relative path -> text (subdirectories allowed)
        self.main = main
        self.start, self.end, self.fill = start, end, fill
        self.pretty = pretty                    # None or format name
        self.include_dirs = list(include_dirs)  # relative to workdir
        self.predefined = list(predefined)
        self.binary = binary
        self.want_lines = want_lines
        self.workdir = None

    # ---- filesystem ----
    def prepare(self, base=None):
        self.workdir = tempfile.mkdtemp(prefix='sxpipe_', dir=base)
        for rel, text in self.files.items():
            p = os.path.join(self.workdir, rel)
            os.makedirs(os.path.dirname(p), exist_ok=True)
            if text.startswith('SYMLINK:'):
                os.symlink(text[len('SYMLINK:'):], p)          # a second name for a directory or file of the case
                continue
            with builtins.open(p, 'w') as f:
                f.write(text)
        with builtins.open(os.path.join(self.workdir, 'isa.yaml'), 'w') as f:
            f.write('# placeholder: the symbolic run injects the dictionary directly\n')
        return self.workdir

    def cleanup(self):
        if self.workdir:
            shutil.rmtree(self.workdir, ignore_errors=True)
            self.workdir = None

    def symbols(self):
        return collect_syms([self.config, self.start, self.end, self.fill, [p for p in self.predefined if isinstance(p, tuple)]])

    # ---- symbolic run ----
    def run_symbolic(self, ctx: E.Ctx) -> Outcome:
        import bespokeasm.assembler.engine as eng
        shims.install()
        _patch_capture()
        shims.reset_globals()
        _reset_defaults()
        _captured_lines['top'] = None
        _captured_lines['predef'] = []

        def mk(s):
            if isinstance(s, SymVer):
                return shims.SymVersionToken(s.name, [ctx.sym(p.name, p.lo, p.hi) for p in s.parts()], bits=max(1, s.hi.bit_length()))
            return ctx.sym(s.name, s.lo, s.hi)
        # declare every symbol up front, in a fixed order
        for name, s in sorted(self.symbols().items()):
            mk(s)
        shims.set_config_provider(lambda: _wrap_numbers(materialize(self.config, mk)))
        shims.set_condition_symbols({p[0]: mk(p[1]) for p in self.predefined if isinstance(p, tuple)})
        start = materialize(self.start, mk)
        end = materialize(self.end, mk)
        fill = materialize(self.fill, mk)
        start = start if isinstance(start, E.SymInt) else E.SymInt(E.Z(start))
        end = None if end is None else (end if isinstance(end, E.SymInt) else E.SymInt(E.Z(end)))
        out_path = os.path.join(self.workdir, 'out.bin')
        try:
            import bespokeasm.__main__ as cli
            # the real command callback: window / fill / option handling of the command line is part of the encoded code
            cli.compile.callback(
                asm_file=os.path.join(self.workdir, self.main), config_file=os.path.join(self.workdir, 'isa.yaml'),
                binary=self.binary, output_file=out_path, binary_min_address=start,
                binary_max_address=(end if end is not None else -1), binary_fill=fill,
                pretty_print=self.pretty is not None, pretty_print_format=self.pretty or 'listing',
                pretty_print_output='stdout', verbose=0,
                include_path=tuple(os.path.join(self.workdir, d) for d in self.include_dirs),
                macro_symbol=tuple(p for p in self.predefined if not isinstance(p, tuple)))
        except SystemExit as e:
            return self._outcome('exit', str(e.code), out_path)
        except Exception as e:   # noqa - crashes are outcomes, not engine failures
            return self._outcome('exc', f'{type(e).__name__}: {e}', out_path)
        o = self._outcome('ok', '', out_path)
        if self.want_lines and _captured_lines['top'] is not None:
            o.lines = line_infos(list(_captured_lines['top']) + list(_captured_lines['predef']))
            for li in o.lines:
                if li.compilable and not isinstance(li.address, E.SymInt):
                    raise E.HarnessError(f'line address is not a proxy (dict keys would split by hash): {li!r}')
        return o

    def _outcome(self, kind, msg, out_path):
        opens = [n for n, m in shims.capture['opens'] if n == out_path]
        writes = shims.capture['writes'].get(out_path)
        image = None
        if writes:
            image = []
            for w in writes:
                image.extend(list(w))
        o = Outcome(kind, msg, image, len(opens), stdout='\n'.join(shims.capture['stdout']))
        o.intelhex = list(shims.capture['intelhex'])
        return o

    # ---- concrete replay through the real CLI ----
    def concrete_config(self, model: dict) -> dict:
        return materialize(self.config, lambda s: s.text(model) if isinstance(s, SymVer) else model.get(
            s.name, s.lo if s.lo is not None else 0))

    def concrete_predefined(self, model: dict):
        out = []
        for p in self.predefined:
            if isinstance(p, tuple):
                out.append(f'{p[0]}={model.get(p[1].name, p[1].lo or 0)}')
            else:
                out.append(p)
        return out

    def write_concrete(self, model: dict, dest: str):
        import yaml
        os.makedirs(dest, exist_ok=True)
        for rel, text in self.files.items():
            p = os.path.join(dest, rel)
            os.makedirs(os.path.dirname(p), exist_ok=True)
            if text.startswith('SYMLINK:'):
                if not os.path.lexists(p):
                    os.symlink(text[len('SYMLINK:'):], p)
                continue
            with builtins.open(p, 'w') as f:
                f.write(text)
        with builtins.open(os.path.join(dest, 'isa.yaml'), 'w') as f:
            yaml.safe_dump(self.concrete_config(model), f, sort_keys=False)
        val = lambda x: model.get(x.name, x.lo or 0) if isinstance(x, Sym) else x  # noqa
        cmd = ['-m', 'bespokeasm', 'compile', self.main, '-c', 'isa.yaml', '-o', 'out.bin',
               '-s', str(val(self.start)), '-f', str(val(self.fill))]
        if self.end is not None:
            cmd += ['-e', str(val(self.end))]
        if not self.binary:
            cmd += ['-n']
        if self.pretty:
            cmd += ['-p', '-t', self.pretty]
        for d in self.include_dirs:
            cmd += ['-I', d]
        for d in self.concrete_predefined(model):
            cmd += ['-D', d]
        with builtins.open(os.path.join(dest, 'cmd.txt'), 'w') as f:
            f.write('cd ' + dest + ' && PYTHONPATH=' + REPO_SRC + ' /venv/bin/python ' + ' '.join(cmd) + '\n')
        return cmd

    def run_cli(self, model: dict, dest: str = None, timeout=30, hashseed=None, absolute=False, cwd=None,
                reverse_includes=False, verbose=0, config_json=False) -> Outcome:
        """the real command line in a fresh interpreter.  hashseed / absolute paths + other working directory /
        include directories in reverse order: the run-to-run variations of C15"""
        own = dest is None
        if own:
            dest = tempfile.mkdtemp(prefix='sxcli_')
        try:
            cmd = self.write_concrete(model, dest)
            if reverse_includes:
                idx = [i for i, c in enumerate(cmd) if c == '-I']
                dirs = [cmd[i + 1] for i in idx]
                for i, d in zip(idx, reversed(dirs)):
                    cmd[i + 1] = d
            if absolute:
                ab = lambda x: os.path.join(dest, x)  # noqa
                for i, c in enumerate(cmd):
                    if c in ('-c', '-o', '-I'):
                        cmd[i + 1] = ab(cmd[i + 1])
                cmd[3] = ab(cmd[3])
            if verbose:
                cmd = cmd[:4] + ['-v'] * verbose + cmd[4:]
            if config_json:
                # the same definition as a JSON file (tab indented, as json.dump(indent='\t') writes it)
                import json as _json
                with builtins.open(os.path.join(dest, 'isa.json'), 'w') as f:
                    _json.dump(self.concrete_config(model), f, indent='\t')
                cmd[cmd.index('-c') + 1] = cmd[cmd.index('-c') + 1].replace('isa.yaml', 'isa.json')
            env = dict(os.environ)
            env['PYTHONPATH'] = REPO_SRC
            env['PYTHONDONTWRITEBYTECODE'] = '1'
            if hashseed is not None:
                env['PYTHONHASHSEED'] = str(hashseed)
            outp = os.path.join(dest, 'out.bin')
            if os.path.exists(outp):
                os.remove(outp)
            try:
                p = subprocess.run([sys.executable, '-B'] + cmd, cwd=cwd or dest, env=env, capture_output=True,
                                   text=True, timeout=timeout)
            except subprocess.TimeoutExpired:
                return Outcome('timeout', f'no termination within {timeout}s',
                               list(builtins.open(outp, 'rb').read()) if os.path.exists(outp) else None,
                               1 if os.path.exists(outp) else 0)
            image = list(builtins.open(outp, 'rb').read()) if os.path.exists(outp) else None
            kind = 'ok' if p.returncode == 0 else 'exit'
            msg = (p.stderr.strip().splitlines() or [''])[-1] if p.returncode else ''
            if p.returncode != 0 and 'Traceback' in p.stderr:
                kind = 'exc'
            return Outcome(kind, msg, image, 1 if image is not None else 0, stdout=p.stdout)
        finally:
            if own:
                shutil.rmtree(dest, ignore_errors=True)


def _wrap_numbers(cfg):
    """Make address-like leaves proxies so that dictionaries keyed by addresses hold proxies only."""
    g = cfg.get('general', {}) if isinstance(cfg, dict) else {}
    if isinstance(g.get('origin', 0), builtins.int):
        g['origin'] = E.SymInt(E.bvval(g.get('origin', 0)))
    pre = cfg.get('predefined') if isinstance(cfg, dict) else None
    if isinstance(pre, dict):
        for z in pre.get('memory_zones', []) or []:
            for k in ('start', 'end'):
                if isinstance(z.get(k), builtins.int) and not isinstance(z.get(k), bool):
                    z[k] = E.SymInt(E.bvval(z[k]))
        for d in pre.get('data', []) or []:
            if isinstance(d.get('address'), builtins.int):
                d['address'] = E.SymInt(E.bvval(d['address']))
    _wrap_enum_keys(cfg)
    return cfg


def _wrap_enum_keys(node):
    """numeric_enumeration dictionaries are looked up with the operand value: make their keys proxies as well"""
    if isinstance(node, dict):
        if node.get('type') == 'numeric_enumeration':
            for part in ('bytecode', 'argument'):
                d = node.get(part, {}).get('value_dict') if isinstance(node.get(part), dict) else None
                if isinstance(d, dict):
                    node[part]['value_dict'] = {
                        (E.SymInt(E.bvval(k)) if isinstance(k, builtins.int) and not isinstance(k, bool) else k): v
                        for k, v in d.items()}
        for v in list(node.values()):
            _wrap_enum_keys(v)
    elif isinstance(node, list):
        for v in node:
            _wrap_enum_keys(v)


def eval_under(model: dict, x):
    """Evaluate int | SymInt under a model given as {symbol name: int}."""
    if isinstance(x, E.SymInt):
        subs = [(z3.BitVec(n, E.W), z3.BitVecVal(v, E.W)) for n, v in model.items()]
        r = z3.simplify(z3.substitute(x.e, *subs))
        if not z3.is_bv_value(r):
            # unconstrained symbol left: complete with zero
            return None
        return r.as_signed_long()
    return x


def image_under(model: dict, image):
    if image is None:
        return None
    return [eval_under(model, b) for b in image]
