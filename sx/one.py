"""debug helper: python -m sx.one C02 <sid-substring> [tier]"""
import importlib, sys, json
from sx import runner
mod = importlib.import_module('props.' + sys.argv[1].lower())
tier = sys.argv[3] if len(sys.argv) > 3 else 'quick'
import os
for s in mod.shapes(tier, int(os.environ.get('VERIF_SEED', '0'))):
    if sys.argv[2] in s.sid:
        r = runner.run_shape((s, {'prop': mod.ID, 'known': runner.load_known(mod.ID), 'profile': False, 'max_witness': 2, 'shape_wall_s': 120}))
        for k in ('shape', 'paths', 'queries', 'solver_s', 'outcomes', 'obligations', 'discharged', 'inconclusive', 'overflow_paths', 'validated', 'cli_validated', 'shape_wall_s'):
            print(k, '=', r.get(k))
        for e in r['harness_errors']: print('HERR', e[:3000])
        for v in r['confirmed']: print('CONFIRMED', json.dumps(v, default=str)[:1500])
        for v in r['known_hits']: print('KNOWN', json.dumps(v, default=str)[:600])
        for v in r.get('nonterm', []): print('NONTERM', v)
        print(json.dumps(s.describe(), default=str)[:1500])
