"""Environment stubs: builtins rebound in the namespace of individual repo modules (no repo source is changed).

Every stub is part of the claim and is listed in the evidence (`STUBS`)."""
from __future__ import annotations

import builtins
import copy

from . import engine as E

STUBS = [
    'range in engine -> yields proxies when a bound is a proxy (values used as keys of address-keyed dictionaries)',
    'bytearray -> list-backed SymByteArray in bytecode.packed_bits, bytecode.assembled, line_object, engine',
    'int -> proxy-aware cast (always yields a proxy; isinstance(x, int) accepts proxies) in expression, utilities, bytecode.parts, model, line_object.data_line, __main__ (the command callback is the entry point of PIPE runs)',
    'Fraction -> exact rational proxy (SymRat) in expression; float (if the code uses it) -> IEEE binary64 proxy (z3 FP theory)',
    'open(..., "w"/"wb") in engine -> in-memory capture (records every open and write)',
    'click.echo / print in engine -> no-op / capture; hex() in engine (error message only) -> constant text',
    'yaml.safe_load in model -> deep copy of the shape\'s configuration dictionary with symbolic numeric leaves',
    'parse_expression as imported into preprocessor.condition: designated operand names (c1, c2, ...) yield a numeric '
    'node holding a symbolic integer, every other text goes to the real parser',
    'packaging.version in model and required_language: parse() of a designated token yields a symbolic (major, minor, '
    'patch, pre-release) tuple compared lexicographically; other text goes to the real parser first',
    'IntelHex in pretty_printer.intelhex -> recorder of the (address, bytes) calls',
    'process-global state reset per path: LabelScope._global_scope, InstructionLine._INSTRUCTUION_EXTRACTION_PATTERN, '
    'AssemblyFile.load_line_objects default set',
]

_installed = False
capture = {'opens': [], 'writes': {}, 'stdout': [], 'intelhex': []}
_config_provider = {'fn': None}
_cond_symbols = {'map': {}}
_originals = {}


class _FakeFile:
    def __init__(self, name, mode):
        self.name = name
        self.mode = mode

    def __enter__(self):
        return self

    def __exit__(self, *a):
        return False

    def write(self, data):
        capture['writes'].setdefault(self.name, []).append(data)


def _fake_open(name, mode='r', *a, **k):
    if 'w' in mode or 'a' in mode:
        capture['opens'].append((name, mode))
        return _FakeFile(name, mode)
    return builtins.open(name, mode, *a, **k)


class _Click:
    @staticmethod
    def echo(*a, **k):
        return None


class _ClickCli:
    """click as seen by __main__ after import: only echo() is used at run time inside the command callbacks"""
    @staticmethod
    def echo(*a, **k):
        return None


def _print(*a, **k):
    capture['stdout'].append(' '.join(str(x) for x in a))


class _IntelHexRecorder:
    """stand-in for intelhex.IntelHex: records what the printer hands over (the third-party writer is not analysed)"""

    def puts(self, addr, data):
        capture['intelhex'].append((addr, list(getattr(data, 'd', data))))

    # the other ways the library accepts bytes: same record (address, bytes)
    def frombytes(self, data, offset=0):
        d = list(getattr(data, 'd', data))
        if d:
            capture['intelhex'].append((offset, d))

    def putsz(self, addr, data):
        self.puts(addr, list(getattr(data, 'd', data)) + [0])

    def __setitem__(self, addr, value):
        if isinstance(addr, slice):
            capture['intelhex'].append((addr.start, list(value)))
        else:
            capture['intelhex'].append((addr, [value]))

    def write_hex_file(self, f):
        f.write('<intel hex written by the third-party library>')

    def dump(self, tofile=None):
        tofile.write('<hex dump written by the third-party library>')


class _Yaml:
    YAMLError = Exception

    @staticmethod
    def safe_load(f):
        fn = _config_provider['fn']
        if fn is None:
            import yaml
            return yaml.safe_load(f)
        return fn()


class _Json:
    @staticmethod
    def load(f):
        fn = _config_provider['fn']
        if fn is None:
            import json
            return json.load(f)
        return fn()


NONDET_SEEDS = 12     # order selectors ("hash seeds") explored per path
NONDET_FULL = 3       # sets up to this size: the selectors reach all n! orders
NONDET_LIMIT = 16     # sets up to this size: the selectors reach rotations of the canonical order and their reversals
                      # (all 2n of them up to n = 6, the first NONDET_SEEDS beyond)


class NondetSet(set):
    """Stand-in for `set` whose iteration order is chosen by the solver.  CPython's order is a function of the hash
    seed of the process, so a run has ONE seed that fixes the order of every set: the stub asks the engine for one
    order selector per path (a K-way fork, K = NONDET_SEEDS) and derives the order of each set from it - for sets of
    <= NONDET_FULL elements the selectors reach all n! permutations, up to NONDET_LIMIT every rotation and reversed
    rotation (each element comes first and last); larger sets make the shape inconclusive.  Orders of different sets
    on one path are correlated (as they are in one real process).  Membership, len and set algebra are the real ones."""

    def __iter__(self):
        import itertools
        import z3
        items = sorted(set.__iter__(self), key=repr)
        ctx = E.Ctx.cur
        n = len(items)
        if ctx is None or n < 2:
            return iter(items)
        if n > NONDET_LIMIT:
            raise E.Inconclusive(f'iteration over a set of {n} elements')
        k = ctx.choose(z3.BitVec('set_iteration_order_selector', E.W), rng=(0, NONDET_SEEDS - 1))
        if n <= NONDET_FULL:
            perms = list(itertools.permutations(items))
            return iter(perms[k % len(perms)])
        r = k % n
        order = items[r:] + items[:r]
        return iter(order if (k // n) % 2 == 0 else order[::-1])


def _sym_range(*args):
    """`range` as seen by the engine module: when a bound is a proxy the values it yields are proxies too, so that they
    can be used as keys of dictionaries keyed by proxy addresses (a plain int and a proxy do not share a hash)"""
    import builtins
    if not any(isinstance(a, E.SymInt) for a in args):
        return builtins.range(*args)
    start, stop, step = (0, args[0], 1) if len(args) == 1 else (args[0], args[1], args[2] if len(args) > 2 else 1)
    if isinstance(step, E.SymInt):
        step = int(step)

    def gen():
        # the same control flow as `i = start; while i < stop: ...; i += step` on proxies (no concretisation)
        i = start if isinstance(start, E.SymInt) else E.SymInt(E.bvval(start))
        while (i < stop) if step > 0 else (i > stop):
            yield i
            i = i + step
    return gen()


NONDET_SET_MODULES = ['bespokeasm.assembler.engine', 'bespokeasm.assembler.assembly_file', 'bespokeasm.assembler.model',
                      'bespokeasm.assembler.model.instruction_set', 'bespokeasm.assembler.model.operand_set',
                      'bespokeasm.assembler.preprocessor', 'bespokeasm.assembler.line_object.instruction_line',
                      'bespokeasm.assembler.line_object.factory', 'bespokeasm.assembler.label_scope',
                      'bespokeasm.assembler.memory_zone.manager', 'bespokeasm.assembler.pretty_printer.listing']


def install_nondet_sets():
    """C15: every `set(...)` built in these modules iterates in an order the solver chooses"""
    import importlib
    for name in NONDET_SET_MODULES:
        try:
            m = importlib.import_module(name)
        except ImportError:
            continue
        m.set = NondetSet


def install():
    global _installed
    if _installed:
        return
    import bespokeasm.assembler.bytecode.packed_bits as pbm
    import bespokeasm.assembler.line_object as lom
    import bespokeasm.assembler.engine as eng
    import bespokeasm.expression as expr
    import bespokeasm.utilities as util
    import bespokeasm.assembler.bytecode.parts as parts
    import bespokeasm.assembler.model as model
    pbm.bytearray = E.SymByteArray
    eng.range = _sym_range
    lom.bytearray = E.SymByteArray
    eng.bytearray = E.SymByteArray
    import bespokeasm.assembler.bytecode.assembled as asmd
    asmd.bytearray = E.SymByteArray
    expr.int = E.sym_int
    expr.float = E.sym_real_float
    if hasattr(expr, 'Fraction'):
        expr.Fraction = E.sym_float
    util.int = E.sym_int
    parts.int = E.sym_int
    model.int = E.sym_int
    import bespokeasm.assembler.line_object.data_line as dl
    dl.int = E.sym_int
    eng.open = _fake_open
    eng.click = _Click
    eng.print = _print
    eng.hex = lambda x: 'hex'
    model.yaml = _Yaml
    model.json = _Json
    model.click = _Click
    import bespokeasm.assembler.assembly_file as af
    af.click = _Click
    model.version = _VersionStub
    import bespokeasm.assembler.line_object.preprocessor_line.required_language as rl
    rl.version = _VersionStub
    import bespokeasm.assembler.pretty_printer.intelhex as ih
    ih.IntelHex = _IntelHexRecorder
    import bespokeasm.__main__ as cli
    cli.int = E.sym_int
    cli.click = _ClickCli
    import bespokeasm.assembler.preprocessor.condition as cond
    cond.parse_expression = _cond_parse_expression
    _installed = True


class SymVersion:
    """Stand-in for packaging.version.Version: (major, minor, patch, stage) with stage -1 = pre-release, 0 = final."""

    def __init__(self, comps):
        self.c = [x if isinstance(x, E.SymInt) else E.SymInt(E.bvval(x)) for x in comps]

    def _lex(self, o, strict_op, final):
        import z3
        a, b = [x.e for x in self.c], [x.e for x in o.c]
        res = final
        for x, y in reversed(list(zip(a, b))):
            res = z3.If(x == y, res, strict_op(x, y))
        return E.SymBool(res)

    def __lt__(self, o): import z3; return self._lex(o, lambda x, y: x < y, z3.BoolVal(False))      # noqa
    def __le__(self, o): import z3; return self._lex(o, lambda x, y: x < y, z3.BoolVal(True))       # noqa
    def __gt__(self, o): import z3; return self._lex(o, lambda x, y: x > y, z3.BoolVal(False))      # noqa
    def __ge__(self, o): import z3; return self._lex(o, lambda x, y: x > y, z3.BoolVal(True))       # noqa

    def __eq__(self, o):
        import z3
        return E.SymBool(z3.And(*[x.e == y.e for x, y in zip(self.c, o.c)]))

    def __ne__(self, o):
        return ~(self == o)

    def __hash__(self):
        return 3

    # attributes of packaging.version.Version that code may look at
    @property
    def release(self):
        return tuple(self.c[:3])

    @property
    def major(self):
        return self.c[0]

    @property
    def minor(self):
        return self.c[1]

    @property
    def micro(self):
        return self.c[2]

    @property
    def is_prerelease(self):
        return E.SymBool(self.c[3].e != E.bvval(0))

    @property
    def base_version(self):
        raise E.Inconclusive('base_version text of a symbolic version')


class SymVersionToken:
    """What the configuration holds where a version string is expected; str() gives a token the stub recognises."""
    registry = {}

    def __init__(self, name, comps, bits=11):
        self.name = name
        self.comps = list(comps)
        self.bits = bits
        SymVersionToken.registry[f'@@ver:{name}@@'] = self

    def __str__(self):
        return f'@@ver:{self.name}@@'

    def strip(self):
        return str(self)

    def __format__(self, spec):
        return str(self)

    # If the code under analysis compares the version *as text* (the historical defect), the comparison cannot be
    # decided symbolically within budget (z3 strings + int/bit-vector links return unknown).  The path is forked over a
    # catalogue of version texts - each fork is a concrete, replayable candidate - and everything outside the catalogue
    # is reported as inconclusive, never as held.
    CATALOGUE = [(0, 4, 10, 0), (0, 10, 0, 0), (0, 4, 3, 0), (0, 2, 10, 0), (0, 3, 0, 0), (0, 4, 2, 0), (1, 0, 0, 0),
                 (0, 4, 3, 1), (0, 30, 0, 0), (0, 4, 1, 0), (10, 0, 0, 0), (0, 0, 9, 0)]

    def _concrete_text(self):
        import z3
        for cand in SymVersionToken.CATALOGUE:
            if E.Ctx.cur.decide(z3.And(*[c.e == E.bvval(v) for c, v in zip(self.comps, cand)]), prefer=True):
                return f'{cand[0]}.{cand[1]}.{cand[2]}' + ('b1' if cand[3] else '')
        raise E.Inconclusive('version compared as text for a value outside the catalogue')

    def __gt__(self, other):
        return self._concrete_text() > str(other)

    def __lt__(self, other):
        return self._concrete_text() < str(other)

    def __ge__(self, other):
        return self._concrete_text() >= str(other)

    def __le__(self, other):
        return self._concrete_text() <= str(other)


class _VersionStub:
    """`packaging.version` as seen by model / required_language: parse() of a token yields a symbolic version, parse()
    of ordinary text the real version reduced to (major, minor, patch, stage)."""
    import packaging.version as _real
    VERSION_PATTERN = _real.VERSION_PATTERN
    overrides = {}

    @staticmethod
    def parse(text):
        t = str(text).strip()
        if t in _VersionStub.overrides:
            return SymVersion(_VersionStub.overrides[t])
        tok = SymVersionToken.registry.get(t)
        if tok is not None:
            return SymVersion(tok.comps[:3] + [-tok.comps[3]])
        v = _VersionStub._real.parse(t)
        rel = list(v.release) + [0, 0, 0]
        return SymVersion(rel[:3] + [-1 if v.is_prerelease else 0])


def set_condition_symbols(mapping):
    """names -> SymInt: operands of #if/#elif that stand for an arbitrary integer (C08)"""
    _cond_symbols['map'] = dict(mapping)


def _cond_parse_expression(line_id, expression):
    from bespokeasm.expression import parse_expression, ExpressionNode, TokenType
    v = _cond_symbols['map'].get(expression.strip())
    if v is not None:
        return ExpressionNode(TokenType.T_NUM, value=v)
    return parse_expression(line_id, expression)


def set_config_provider(fn):
    _config_provider['fn'] = fn


def reset_globals():
    from bespokeasm.assembler.label_scope import LabelScope
    from bespokeasm.assembler.line_object.instruction_line import InstructionLine
    from bespokeasm.assembler.assembly_file import AssemblyFile
    LabelScope._global_scope = None
    InstructionLine._INSTRUCTUION_EXTRACTION_PATTERN = None
    f = AssemblyFile.load_line_objects
    f = getattr(f, '__wrapped_orig__', f)
    if f.__defaults__:
        f.__defaults__ = tuple(set() if isinstance(x, set) else x for x in f.__defaults__)
    capture['opens'] = []
    capture['writes'] = {}
    capture['stdout'] = []
    capture['intelhex'] = []
    E.reset_fmt_registry()
