"""C01 - instruction encoding is exactly the bit layout the ISA definition prescribes."""
from . import unit_encode

ID = 'C01'
BUDGET_S = {'quick': 150, 'thorough': 3600}
SHAPE_WALL_S = {'quick': 60, 'thorough': 300}
FAMILY = ('UNIT-A: field layouts (size, byte_align, endian) enumerated, every field value symbolic; PIPE-B: generated ISA '
          'definitions (every operand type, prefix/suffix code position, opcode suffix, reverse options, per-field endianness '
          'and alignment) with symbolic opcode/operand-code/dictionary values, operand values and statement address; plus seeded '
          'random ISA structures (0-3 operand sets of 1-3 members drawn from every operand type, random sizes/positions/flags)')
BOUNDS = {'field_value': '-(2^(size+1)) <= v <= 2^(size+2)', 'bitvector_width': 96, 'fields_per_layout': '1..4',
          'sizes': '1..64'}
ASSUMPTIONS = ['bit order inside a byte: most significant bit first (documented for big endian; for little endian '
               'the bytes are emitted in increasing significance and the partial byte last)']
from sx.shims import STUBS  # noqa


def shapes(tier, seed):
    from .isa_templates import instr_shapes, random_instr_shapes
    return instr_shapes(tier, seed, ['C01']) + random_instr_shapes(tier, seed, ['C01']) + unit_encode.layouts(tier, seed, ['C01'])
