"""C13 - variant and operand selection follows the documented priority only (PIPE, deliberately ambiguous ISAs)."""
from __future__ import annotations

import z3

from sx.pipe import Sym
from sx.shims import STUBS  # noqa
from .instr import isa, code, arg, V, L, vrange, InstrShape
from .isa_templates import regs_set, REG

ID = 'C13'
BUDGET_S = {'quick': 170, 'thorough': 3600}
SHAPE_WALL_S = {'quick': 100, 'thorough': 600}
FAMILY = ('PIPE: ISA definitions in which several variants / specific operand lists / operand-set members accept the same '
          'operand text; the opcode and operand-code value of every alternative is a distinct unconstrained symbol, so '
          '"alternative k was chosen" is decided as image == encoding of alternative k for all values; statements that no '
          'alternative accepts (register name as number, wrong operand count, disallowed pair) must be rejected; plus seeded random '
          'ambiguous ISAs (2-4 variants, positions accepting random subsets of {register, numeric, bracketed numeric, enumeration})')
BOUNDS = {'opcode / operand codes': 'any value of the field', 'operand values': 'within and just outside the field range',
          'structures': 'hand-written catalogue (enumerated)', 'bitvector_width': 48}
ASSUMPTIONS = ['which alternatives accept a statement is known by construction of each ISA; only the choice among them is judged',
               'no order is claimed between enumeration keys and plain registers, nor among numeric-like operand types']


class RejectShape(InstrShape):
    def expected_outcomes(self):
        return ['rejected']

    def judge(self, env, out):
        return [('C13.statement_no_alternative_accepts_is_rejected', z3.BoolVal(out.kind != 'ok'))]


def shapes(tier, seed):
    S = []

    def ok(sid, cfg, stmt, **kw):
        S.append(InstrShape(sid, config=cfg, stmt=stmt, props=['C13'], expect=kw.get('expect', ['ok']), width=48))

    def rej(sid, cfg, text):
        S.append(RejectShape(sid, config=cfg, stmt={'mnemonic': text.split()[0], 'text': text, 'uses': []}, props=['C13']))

    # A: variants in definition order ------------------------------------------------------------------------------
    osets = {'regs': regs_set(),
             'imm8': {'operand_values': {'n': {'type': 'numeric', 'bytecode': code('c8', 3), 'argument': arg(8, True)}}},
             'imm16': {'operand_values': {'n': {'type': 'numeric', 'bytecode': code('c16', 3), 'argument': arg(16, True)}}},
             'mem': {'operand_values': {'m': {'type': 'indirect_numeric', 'bytecode': code('cm', 3), 'argument': arg(16, True)}}}}
    ins = {'op': {'bytecode': code('op_a', 5), 'operands': {'count': 2, 'operand_sets': {'list': ['regs', 'imm8']}},
                  'variants': [
                      {'bytecode': code('op_b', 5), 'operands': {'count': 2, 'operand_sets': {'list': ['regs', 'imm16']}}},
                      {'bytecode': code('op_c', 5), 'operands': {'count': 2, 'operand_sets': {'list': ['regs', 'mem']}}},
                      {'bytecode': code('op_d', 5), 'operands': {'count': 1, 'operand_sets': {'list': ['imm16']}}},
                      {'bytecode': code('op_e', 8)}]}}
    cfg = lambda **cs: isa(operand_sets=osets, instructions=ins, consts=cs)  # noqa
    ok('A:first-of-two-accepting-variants', cfg(v1=vrange(8)),
       {'mnemonic': 'op', 'variant': 0, 'text': 'op ra, v1', 'uses': [{'set': 'regs', 'id': 'ra'}, {'set': 'imm8', 'id': 'n', 'val': V('v1')}]},
       expect=['ok', 'rejected'])
    ok('A:only-third-variant-accepts', cfg(v1=vrange(16)),
       {'mnemonic': 'op', 'variant': 2, 'text': 'op rb, [v1]', 'uses': [{'set': 'regs', 'id': 'rb'}, {'set': 'mem', 'id': 'm', 'val': V('v1')}]},
       expect=['ok', 'rejected'])
    ok('A:operand-count-selects-variant', cfg(v1=vrange(16)),
       {'mnemonic': 'op', 'variant': 3, 'text': 'op v1', 'uses': [{'set': 'imm16', 'id': 'n', 'val': V('v1')}]}, expect=['ok', 'rejected'])
    ok('A:no-operand-variant', cfg(), {'mnemonic': 'op', 'variant': 4, 'text': 'op', 'uses': []})
    rej('A:three-operands', cfg(v1=(0, 5)), 'op ra, v1, v1')
    rej('A:register-where-number-expected', cfg(), 'op ra, rb')
    rej('A:register-inside-expression', cfg(), 'op ra, rb+1')
    rej('A:bracketed-register', cfg(), 'op ra, [rb]')
    rej('A:number-where-register-expected', cfg(v1=(0, 5)), 'op v1, v1')

    # B: specific operands before operand sets ---------------------------------------------------------------------
    ins = {'push': {'bytecode': code('op', 8), 'operands': {
        'count': 1,
        'specific_operands': {'acc': {'list': {'r': {'type': 'register', 'register': 'ra', 'bytecode': code('spec_ra', 4)}}},
                              'zero': {'list': {'n': {'type': 'numeric_enumeration', 'bytecode': {
                                  'size': 4, 'value_dict': {0: Sym('spec_zero', 0, 15)}}}}}},
        'operand_sets': {'list': ['regs4']}}},
        'pushn': {'bytecode': code('op', 8), 'operands': {
            'count': 1,
            'specific_operands': {'small': {'list': {'n': {'type': 'numeric_bytecode', 'bytecode': {'size': 4, 'min': 0, 'max': 15}}}}},
            'operand_sets': {'list': ['imm16']}}}}
    osets2 = dict(osets)
    osets2['regs4'] = {'operand_values': {'ra': REG('set_ra', 'ra', 4), 'rb': REG('set_rb', 'rb', 4)}}
    cfg2 = lambda **cs: isa(operand_sets=osets2, instructions=ins, consts=cs)  # noqa
    ok('B:specific-operand-before-set', cfg2(), {'mnemonic': 'push', 'text': 'push ra', 'uses': [{'spec': 'acc', 'id': 'r'}]})
    ok('B:set-when-specific-does-not-match', cfg2(), {'mnemonic': 'push', 'text': 'push rb', 'uses': [{'set': 'regs4', 'id': 'rb'}]})

    # C: disallowed pairs are skipped ------------------------------------------------------------------------------
    ins = {'mv': {'bytecode': code('op_a', 6), 'operands': {'count': 2, 'operand_sets': {
        'list': ['regs', 'regs'], 'disallowed_pairs': [['ra', 'ra'], ['rb', 'rb']]}},
        'variants': [{'bytecode': code('op_b', 6), 'operands': {'count': 2, 'specific_operands': {
            'aa': {'list': {'x': {'type': 'register', 'register': 'ra', 'bytecode': code('v_x', 2)},
                            'y': {'type': 'register', 'register': 'ra', 'bytecode': code('v_y', 2)}}}}}}]}}
    cfg3 = lambda **cs: isa(operand_sets=osets, instructions=ins, consts=cs)  # noqa
    ok('C:allowed-pair', cfg3(), {'mnemonic': 'mv', 'variant': 0, 'text': 'mv ra, rb', 'uses': [{'set': 'regs', 'id': 'ra'}, {'set': 'regs', 'id': 'rb'}]})
    ok('C:disallowed-pair-falls-to-next-variant', cfg3(),
       {'mnemonic': 'mv', 'variant': 1, 'text': 'mv ra, ra', 'uses': [{'spec': 'aa', 'id': 'x'}, {'spec': 'aa', 'id': 'y'}]})
    rej('C:disallowed-pair-without-alternative', cfg3(), 'mv rb, rb')
    # a disallowed combination is an ordered tuple: its mirror image / permutations stay allowed
    insA = {'mv': {'bytecode': code('op_a', 6), 'operands': {'count': 2, 'operand_sets': {
        'list': ['regs', 'regs'], 'disallowed_pairs': [['ra', 'rb']]}},
        'variants': [{'bytecode': code('op_b', 6), 'operands': {'count': 2, 'operand_sets': {'list': ['regs', 'regs']}}}]},
        'm3': {'bytecode': code('op_c', 7), 'operands': {'count': 3, 'operand_sets': {
            'list': ['regs', 'regs', 'regs'], 'disallowed_pairs': [['ra', 'ra', 'rb']]}}}}
    cfgA = lambda: isa(operand_sets=osets, instructions=insA)  # noqa
    U = lambda a, b: [{'set': 'regs', 'id': a}, {'set': 'regs', 'id': b}]  # noqa
    ok('C:listed-order-is-disallowed-falls-to-variant', cfgA(), {'mnemonic': 'mv', 'variant': 1, 'text': 'mv ra, rb', 'uses': U('ra', 'rb')})
    ok('C:mirrored-order-stays-allowed', cfgA(), {'mnemonic': 'mv', 'variant': 0, 'text': 'mv rb, ra', 'uses': U('rb', 'ra')})
    ok('C:same-register-twice-stays-allowed', cfgA(), {'mnemonic': 'mv', 'variant': 0, 'text': 'mv ra, ra', 'uses': U('ra', 'ra')})
    ok('C:permutation-of-triple-stays-allowed', cfgA(), {'mnemonic': 'm3', 'variant': 0, 'text': 'm3 ra, rb, rb', 'uses': [
        {'set': 'regs', 'id': 'ra'}, {'set': 'regs', 'id': 'rb'}, {'set': 'regs', 'id': 'rb'}]})
    ok('C:other-permutation-of-triple-stays-allowed', cfgA(), {'mnemonic': 'm3', 'variant': 0, 'text': 'm3 rb, ra, ra', 'uses': [
        {'set': 'regs', 'id': 'rb'}, {'set': 'regs', 'id': 'ra'}, {'set': 'regs', 'id': 'ra'}]})
    rej('C:listed-triple-is-disallowed', cfgA(), 'm3 ra, ra, rb')

    # D: order inside an operand set -------------------------------------------------------------------------------
    osetsD = {'any': {'operand_values': {
        'n': {'type': 'numeric', 'bytecode': code('d_num', 4), 'argument': arg(16, True)},
        'r': {'type': 'register', 'register': 'ra', 'bytecode': code('d_reg', 4)},
        'e': {'type': 'enumeration', 'bytecode': {'size': 4, 'value_dict': {'eq': Sym('d_eq', 0, 15), 'zz': Sym('d_zz', 0, 15)}},
              'argument': {'size': 8, 'byte_align': True, 'value_dict': {'eq': Sym('a_eq', 0, 255), 'zz': Sym('a_zz', 0, 255)}}},
        'm': {'type': 'indirect_numeric', 'bytecode': code('d_ind', 4), 'argument': arg(16, True)},
        'd': {'type': 'deferred_numeric', 'bytecode': code('d_def', 4), 'argument': arg(16, True)},
        'ir': {'type': 'indirect_register', 'register': 'sp', 'bytecode': code('d_isp', 4), 'offset': {'size': 8, 'byte_align': True}},
        'xr': {'type': 'indexed_register', 'register': 'ix', 'bytecode': code('d_ix', 2), 'index_operands': {
            'off': {'type': 'numeric', 'bytecode': code('d_ixn', 2), 'argument': arg(8, True)}}},
    }}}
    insD = {'t': {'bytecode': code('op', 4), 'operands': {'count': 1, 'operand_sets': {'list': ['any']}}}}
    # `eq` is also a predefined constant: the enumeration key must win over the numeric expression
    cfgD = lambda **cs: isa(operand_sets=osetsD, instructions=insD, consts=dict(eq=Sym('eqv', 0, 100), **cs))  # noqa

    def cfgD2(**cs):
        c = isa(operand_sets=osetsD, instructions=insD, consts=cs)
        c['predefined']['constants'].append({'name': 'eq', 'value': Sym('eqv', 0, 1000)})
        return c
    ok('D:enumeration-key-before-numeric-label', cfgD2(), {'mnemonic': 't', 'text': 't eq', 'uses': [{'set': 'any', 'id': 'e', 'key': 'eq'}]})
    ok('D:plain-register', cfgD2(), {'mnemonic': 't', 'text': 't ra', 'uses': [{'set': 'any', 'id': 'r'}]})
    ok('D:numeric', cfgD2(v1=vrange(16)), {'mnemonic': 't', 'text': 't v1', 'uses': [{'set': 'any', 'id': 'n', 'val': V('v1')}]},
       expect=['ok', 'rejected'])
    ok('D:numeric-expression-with-enum-key-name', cfgD2(), {'mnemonic': 't', 'text': 't eq + 1', 'uses': [
        {'set': 'any', 'id': 'n', 'val': ('+', V('eqv'), ('c', 1))}]})
    ok('D:indirect-numeric', cfgD2(v1=vrange(16)), {'mnemonic': 't', 'text': 't [v1]', 'uses': [{'set': 'any', 'id': 'm', 'val': V('v1')}]},
       expect=['ok', 'rejected'])
    ok('D:deferred-before-indirect', cfgD2(v1=vrange(16)), {'mnemonic': 't', 'text': 't [[v1]]', 'uses': [{'set': 'any', 'id': 'd', 'val': V('v1')}]},
       expect=['ok', 'rejected'])
    ok('D:indirect-register-with-offset', cfgD2(v1=vrange(8)), {'mnemonic': 't', 'text': 't [sp+v1]', 'uses': [{'set': 'any', 'id': 'ir', 'val': V('v1')}]},
       expect=['ok', 'rejected'])
    ok('D:indexed-register', cfgD2(v1=vrange(8)), {'mnemonic': 't', 'text': 't ix + v1', 'uses': [
        {'set': 'any', 'id': 'xr', 'index_id': 'off', 'index_val': V('v1')}]}, expect=['ok', 'rejected'])
    # E: every numeric-like operand type tried *before* a register alternative must decline a register name --------
    numeric_like = {
        'numeric': {'type': 'numeric', 'bytecode': code('e_n', 4), 'argument': arg(16, True)},
        'numeric-valid-address': {'type': 'numeric', 'bytecode': code('e_n', 4), 'argument': arg(16, True, valid_address=True)},
        'address': {'type': 'address', 'bytecode': code('e_n', 4), 'argument': arg(16, True)},
        'relative': {'type': 'relative_address', 'bytecode': code('e_n', 4), 'argument': arg(16, True)},
        'numeric-bytecode': {'type': 'numeric_bytecode', 'bytecode': {'size': 4, 'min': 0, 'max': 15}},
        'numeric-enumeration': {'type': 'numeric_enumeration', 'bytecode': {'size': 4, 'value_dict': {0: 1, 1: 2}}},
    }
    bracketed = {
        'indirect-numeric': {'type': 'indirect_numeric', 'bytecode': code('e_n', 4), 'argument': arg(16, True)},
        'indirect-numeric-valid-address': {'type': 'indirect_numeric', 'bytecode': code('e_n', 4), 'argument': arg(16, True, valid_address=True)},
        'deferred-numeric-valid-address': {'type': 'deferred_numeric', 'bytecode': code('e_n', 4), 'argument': arg(16, True, valid_address=True)},
    }
    for name, od in numeric_like.items():
        for how in ('earlier-variant', 'specific-before-set'):
            osetsE = {'num': {'operand_values': {'n': od}}, 'regs4': {'operand_values': {'ra': REG('e_ra', 'ra', 4), 'rb': REG('e_rb', 'rb', 4)}}}
            if how == 'earlier-variant':
                insE = {'j': {'bytecode': code('op_a', 4), 'operands': {'count': 1, 'operand_sets': {'list': ['num']}},
                              'variants': [{'bytecode': code('op_b', 4), 'operands': {'count': 1, 'operand_sets': {'list': ['regs4']}}}]}}
                stmt = {'mnemonic': 'j', 'variant': 1, 'text': 'j rb', 'uses': [{'set': 'regs4', 'id': 'rb'}]}
            else:
                insE = {'j': {'bytecode': code('op_a', 4), 'operands': {'count': 1, 'specific_operands': {'s': {'list': {'n': od}}},
                                                                        'operand_sets': {'list': ['regs4']}}}}
                stmt = {'mnemonic': 'j', 'variant': 0, 'text': 'j rb', 'uses': [{'set': 'regs4', 'id': 'rb'}]}
            ok(f'E:register-after-{name}:{how}', isa(operand_sets=osetsE, instructions=insE), stmt)
    for name, od in bracketed.items():
        osetsE = {'num': {'operand_values': {'n': od}},
                  'ind': {'operand_values': {'i': {'type': 'indirect_register', 'register': 'sp', 'bytecode': code('e_sp', 4)}}}}
        insE = {'j': {'bytecode': code('op_a', 4), 'operands': {'count': 1, 'operand_sets': {'list': ['num']}},
                      'variants': [{'bytecode': code('op_b', 4), 'operands': {'count': 1, 'operand_sets': {'list': ['ind']}}}]}}
        text = 'j [[sp]]' if name.startswith('deferred') else 'j [sp]'
        if name.startswith('deferred'):
            rej(f'E:register-inside-{name}', isa(operand_sets=osetsE, instructions=insE), text)
        else:
            ok(f'E:indirect-register-after-{name}', isa(operand_sets=osetsE, instructions=insE),
               {'mnemonic': 'j', 'variant': 1, 'text': text, 'uses': [{'set': 'ind', 'id': 'i'}]})
    # numeric enumeration declared before an enumeration in the same set: the key still wins
    osetsF = {'any': {'operand_values': {
        'ne': {'type': 'numeric_enumeration', 'bytecode': {'size': 4, 'value_dict': {1: Sym('f_1', 0, 15), 2: Sym('f_2', 0, 15)}}},
        'e': {'type': 'enumeration', 'bytecode': {'size': 4, 'value_dict': {'eq': Sym('f_eq', 0, 15)}},
              'argument': {'size': 8, 'byte_align': True, 'value_dict': {'eq': Sym('fa_eq', 0, 255)}}}}}}
    cfgF = lambda **cs: isa(operand_sets=osetsF, instructions=insD, consts=cs)  # noqa
    ok('F:enumeration-key-before-numeric-enumeration', cfgF(), {'mnemonic': 't', 'text': 't eq', 'uses': [{'set': 'any', 'id': 'e', 'key': 'eq'}]})
    ok('F:numeric-enumeration-for-a-number', cfgF(v1=(-1, 4)), {'mnemonic': 't', 'text': 't v1', 'uses': [{'set': 'any', 'id': 'ne', 'val': V('v1')}]},
       expect=['ok', 'rejected'])
    # G: `[ix]` without an offset and an indexed form of the same register in one set (and in two variants): the plain
    # form declines `[ix+v]` so that the indexed form is reached; `[ix+v]` with no form accepting it is rejected
    idx = {'off': {'type': 'numeric', 'bytecode': code('g_n', 2), 'argument': arg(8, True)},
           'ir': {'type': 'register', 'register': 'ra', 'bytecode': code('g_r', 2)}}
    osetsG = {'mem': {'operand_values': {
        'plain': {'type': 'indirect_register', 'register': 'ix', 'bytecode': code('g_p', 3)},
        'idx': {'type': 'indirect_indexed_register', 'register': 'ix', 'bytecode': code('g_x', 3), 'index_operands': idx}}},
        'plain_only': {'operand_values': {'plain': {'type': 'indirect_register', 'register': 'ix', 'bytecode': code('g_p', 3)}}},
        'idx_only': {'operand_values': {'idx': {'type': 'indirect_indexed_register', 'register': 'ix', 'bytecode': code('g_x', 3),
                                                'index_operands': idx}}}}
    insG = {'t': {'bytecode': code('op', 4), 'operands': {'count': 1, 'operand_sets': {'list': ['mem']}}},
            'u': {'bytecode': code('op_a', 4), 'operands': {'count': 1, 'operand_sets': {'list': ['plain_only']}},
                  'variants': [{'bytecode': code('op_b', 4), 'operands': {'count': 1, 'operand_sets': {'list': ['idx_only']}}}]},
            'w': {'bytecode': code('op_a', 4), 'operands': {'count': 1, 'operand_sets': {'list': ['plain_only']}}}}
    cfgG = lambda **cs: isa(operand_sets=osetsG, instructions=insG, consts=cs)  # noqa
    ok('G:plain-indirect', cfgG(), {'mnemonic': 't', 'text': 't [ix]', 'uses': [{'set': 'mem', 'id': 'plain'}]})
    ok('G:indexed-after-plain-indirect-same-set', cfgG(v1=vrange(8)), {'mnemonic': 't', 'text': 't [ix+v1]', 'uses': [
        {'set': 'mem', 'id': 'idx', 'index_id': 'off', 'index_val': V('v1')}]}, expect=['ok', 'rejected'])
    ok('G:register-index-after-plain-indirect', cfgG(), {'mnemonic': 't', 'text': 't [ix + ra]', 'uses': [
        {'set': 'mem', 'id': 'idx', 'index_id': 'ir'}]})
    ok('G:indexed-in-later-variant', cfgG(v1=vrange(8)), {'mnemonic': 'u', 'variant': 1, 'text': 'u [ix+v1]', 'uses': [
        {'set': 'idx_only', 'id': 'idx', 'index_id': 'off', 'index_val': V('v1')}]}, expect=['ok', 'rejected'])
    ok('G:plain-in-first-variant', cfgG(), {'mnemonic': 'u', 'variant': 0, 'text': 'u [ix]', 'uses': [{'set': 'plain_only', 'id': 'plain'}]})
    rej('G:offset-with-no-form-accepting-it', cfgG(v1=(0, 5)), 'w [ix+v1]')
    # H: alternatives of the same kind in one set keep their definition order, whatever they are called
    for order in ('za', 'az'):
        first, second = ('z_first', 'a_second') if order == 'za' else ('a_first', 'z_second')
        osetsH = {
            'nums': {'operand_values': {
                first: {'type': 'numeric', 'bytecode': code('h_n1', 4), 'argument': arg(8, True)},
                second: {'type': 'numeric', 'bytecode': code('h_n2', 4), 'argument': arg(16, True)}}},
            'inds': {'operand_values': {
                first: {'type': 'indirect_register', 'register': 'sp', 'bytecode': code('h_i1', 4)},
                second: {'type': 'indirect_register', 'register': 'sp', 'bytecode': code('h_i2', 4), 'offset': {'size': 8, 'byte_align': True}}}},
            'enums': {'operand_values': {
                first: {'type': 'enumeration', 'bytecode': {'size': 4, 'value_dict': {'eq': Sym('h_e1', 0, 15), 'lt': Sym('h_l1', 0, 15)}},
                        'argument': {'size': 8, 'byte_align': True, 'value_dict': {'eq': Sym('ha_e1', 0, 255), 'lt': Sym('ha_l1', 0, 255)}}},
                second: {'type': 'enumeration', 'bytecode': {'size': 4, 'value_dict': {'eq': Sym('h_e2', 0, 15), 'gt': Sym('h_g2', 0, 15)}},
                         'argument': {'size': 8, 'byte_align': True, 'value_dict': {'eq': Sym('ha_e2', 0, 255), 'gt': Sym('ha_g2', 0, 255)}}}}},
            'memn': {'operand_values': {
                first: {'type': 'indirect_numeric', 'bytecode': code('h_m1', 4), 'argument': arg(16, True, 'little')},
                second: {'type': 'indirect_numeric', 'bytecode': code('h_m2', 4), 'argument': arg(16, True)}}}}
        insH = {'tn': {'bytecode': code('op', 4), 'operands': {'count': 1, 'operand_sets': {'list': ['nums']}}},
                'ti': {'bytecode': code('op', 4), 'operands': {'count': 1, 'operand_sets': {'list': ['inds']}}},
                'te': {'bytecode': code('op', 4), 'operands': {'count': 1, 'operand_sets': {'list': ['enums']}}},
                'tm': {'bytecode': code('op', 4), 'operands': {'count': 1, 'operand_sets': {'list': ['memn']}}}}
        cfgH = lambda **cs: isa(operand_sets=osetsH, instructions=insH, consts=cs)  # noqa
        ok(f'H:{order}:first-of-two-numeric', cfgH(v1=vrange(8)), {'mnemonic': 'tn', 'text': 'tn v1', 'uses': [
            {'set': 'nums', 'id': first, 'val': V('v1')}]}, expect=['ok', 'rejected'])
        ok(f'H:{order}:first-of-two-indirect-numeric', cfgH(v1=vrange(16)), {'mnemonic': 'tm', 'text': 'tm [v1]', 'uses': [
            {'set': 'memn', 'id': first, 'val': V('v1')}]}, expect=['ok', 'rejected'])
        ok(f'H:{order}:plain-indirect-before-offset-form', cfgH(), {'mnemonic': 'ti', 'text': 'ti [sp]', 'uses': [{'set': 'inds', 'id': first}]})
        ok(f'H:{order}:offset-form-when-plain-declines', cfgH(v1=vrange(8)), {'mnemonic': 'ti', 'text': 'ti [sp+v1]', 'uses': [
            {'set': 'inds', 'id': second, 'val': V('v1')}]}, expect=['ok', 'rejected'])
        ok(f'H:{order}:shared-enumeration-key', cfgH(), {'mnemonic': 'te', 'text': 'te eq', 'uses': [{'set': 'enums', 'id': first, 'key': 'eq'}]})
        ok(f'H:{order}:key-only-in-second-enumeration', cfgH(), {'mnemonic': 'te', 'text': 'te gt', 'uses': [{'set': 'enums', 'id': second, 'key': 'gt'}]})
    # I: macro variants are chosen by the same rules as instruction variants (definition order, specific operands first,
    # an `empty` operand counts towards `count` but takes no text); each variant expands to an instruction of its own
    osetsI = {'regs': regs_set(), 'imm8': {'operand_values': {'n': {'type': 'numeric', 'argument': arg(8, True)}}}}
    one = {'count': 1, 'operand_sets': {'list': ['imm8']}}
    insI = {'opa': {'bytecode': code('op_a', 8), 'operands': one}, 'opb': {'bytecode': code('op_b', 8), 'operands': one},
            'opc': {'bytecode': code('op_c', 8), 'operands': one}}
    with_empty = {'count': 2, 'specific_operands': {'impl': {'list': {'n': {'type': 'numeric', 'argument': arg(8, True)},
                                                                   'e': {'type': 'empty'}}}}}
    macI = {'mac': [{'operands': with_empty, 'instructions': ['opa @ARG(0)']},
                    {'operands': one, 'instructions': ['opb @ARG(0)']},
                    {'operands': {'count': 2, 'operand_sets': {'list': ['regs', 'imm8']}}, 'instructions': ['opc @ARG(1)']},
                    {'instructions': ['opc 0']}],
            'mac2': [{'operands': one, 'instructions': ['opb @ARG(0)']},
                     {'operands': with_empty, 'instructions': ['opa @ARG(0)']}]}
    cfgI = lambda **cs: isa(operand_sets=osetsI, instructions=insI, macros=macI, consts=cs)  # noqa
    UI = lambda v: [{'set': 'imm8', 'id': 'n', 'val': v}]  # noqa
    ok('I:macro-variant-with-empty-operand-first', cfgI(v1=vrange(8)), {'mnemonic': 'opa', 'text': 'mac v1', 'uses': UI(V('v1'))},
       expect=['ok', 'rejected'])
    ok('I:macro-variant-by-operand-count', cfgI(v1=vrange(8)), {'mnemonic': 'opc', 'text': 'mac rb, v1', 'uses': UI(V('v1'))},
       expect=['ok', 'rejected'])
    ok('I:macro-variant-without-operands', cfgI(), {'mnemonic': 'opc', 'text': 'mac', 'uses': UI(('c', 0))})
    ok('I:macro-first-variant-in-definition-order', cfgI(v1=vrange(8)), {'mnemonic': 'opb', 'text': 'mac2 v1', 'uses': UI(V('v1'))},
       expect=['ok', 'rejected'])
    rej('I:macro-no-variant-accepts', cfgI(), 'mac ra, rb')
    rej('I:macro-too-many-operands', cfgI(v1=(0, 5)), 'mac2 v1, v1')
    # J: decorated registers (`ix+`, `+ix`, `ix++`, `@sp`) after a numeric-like alternative: the numeric one declines them
    for name, od in (('address', {'type': 'address', 'bytecode': code('j_n', 4), 'argument': arg(16, True)}),
                     ('numeric', {'type': 'numeric', 'bytecode': code('j_n', 4), 'argument': arg(16, True)}),
                     ('relative', {'type': 'relative_address', 'bytecode': code('j_n', 4), 'argument': arg(16, True)}),
                     ('numeric-bytecode', {'type': 'numeric_bytecode', 'bytecode': {'size': 4, 'min': 0, 'max': 15}}),
                     ('numeric-enumeration', {'type': 'numeric_enumeration', 'bytecode': {'size': 4, 'value_dict': {0: 1, 1: 2}}})):
        osetsJ = {'regs': regs_set(), 'num': {'operand_values': {'n': od}},
                  'post': {'operand_values': {'p': {'type': 'register', 'register': 'ix', 'bytecode': code('j_post', 4),
                                                    'decorator': {'type': 'plus'}}}},
                  'pre': {'operand_values': {'p': {'type': 'register', 'register': 'ix', 'bytecode': code('j_pre', 4),
                                                   'decorator': {'type': 'plus', 'is_prefix': True}}}},
                  'pp': {'operand_values': {'p': {'type': 'register', 'register': 'ix', 'bytecode': code('j_pp', 4),
                                                  'decorator': {'type': 'plus_plus'}},
                                            'a': {'type': 'register', 'register': 'sp', 'bytecode': code('j_at', 4),
                                                  'decorator': {'type': 'at', 'is_prefix': True}}}}}
        two = lambda s2: {'count': 2, 'operand_sets': {'list': ['regs', s2]}}  # noqa
        insJ = {'ld': {'bytecode': code('op_a', 4), 'operands': two('num'), 'variants': [
            {'bytecode': code('op_b', 4), 'operands': two('post')}, {'bytecode': code('op_c', 4), 'operands': two('pre')},
            {'bytecode': code('op_d', 4), 'operands': two('pp')}]}}
        cfgJ = lambda **cs: isa(operand_sets=osetsJ, instructions=insJ, consts=cs)  # noqa
        for k, (text, st_, oid) in enumerate((('ld rb, ix+', 'post', 'p'), ('ld ra, +ix', 'pre', 'p'), ('ld ra, ix++', 'pp', 'p'),
                                              ('ld rb, @sp', 'pp', 'a'))):
            ok(f'J:decorated-register-after-{name}:{text.split(", ")[1]}', cfgJ(),
               {'mnemonic': 'ld', 'variant': {'post': 1, 'pre': 2, 'pp': 3}[st_], 'text': text,
                'uses': [{'set': 'regs', 'id': text.split()[1].rstrip(',')}, {'set': st_, 'id': oid}]})
        if name == 'relative':
            # the whole operand text has to be the expression: text after it is not ignored
            for k, text in enumerate(('ld ra, 5 @ 3', 'ld ra, 7 ! zzz', 'ld rb, 2 ?? junk', 'ld ra, 5 }')):
                rej(f'J:relative-operand-with-trailing-text:{k}', cfgJ(), text)
        if name in ('address', 'numeric'):
            ok(f'J:number-before-decorated-registers:{name}', cfgJ(v1=(0, 0x7000)),
               {'mnemonic': 'ld', 'variant': 0, 'text': 'ld ra, v1', 'uses': [{'set': 'regs', 'id': 'ra'}, {'set': 'num', 'id': 'n', 'val': V('v1')}]})
    osetsK = {'rc': {'operand_values': {'r': {'type': 'relative_address', 'use_curly_braces': True, 'argument': arg(8, True)}}}}
    insK = {'jb': {'bytecode': code('op_a', 8), 'operands': {'count': 1, 'operand_sets': {'list': ['rc']}}}}
    for k, text in enumerate(('jb {5} junk', 'jb {5}+100', 'jb {5} ! 3', 'jb {5', 'jb x{5}')):
        rej(f'K:braced-relative-operand-with-other-text:{k}', isa(operand_sets=osetsK, instructions=insK), text)
    # L: a variant that states `count: 0` takes no operands: written operands go to a later variant or are refused
    insL = {'ret': {'bytecode': code('op_a', 8), 'operands': {'count': 0}, 'variants': [
                {'bytecode': code('op_b', 8), 'operands': {'count': 1, 'operand_sets': {'list': ['imm8']}}}]},
            'rts': {'bytecode': code('op_c', 8), 'operands': {'count': 1, 'operand_sets': {'list': ['imm8']}}, 'variants': [
                {'bytecode': code('op_d', 8), 'operands': {'count': 0}}]},
            'hlt': {'bytecode': code('op_e', 8), 'operands': {'count': 0}}}
    macL = {'leave': [{'operands': {'count': 0}, 'instructions': ['hlt']},
                      {'operands': {'count': 1, 'operand_sets': {'list': ['imm8']}}, 'instructions': ['nop', 'ret @ARG(0)']}]}
    cfgL = lambda **cs: isa(operand_sets=osets, instructions=insL, macros=macL, consts=cs)  # noqa
    UL = lambda v: [{'set': 'imm8', 'id': 'n', 'val': v}]  # noqa
    ok('L:count-zero-variant-first:with-operand', cfgL(v1=vrange(8)), {'mnemonic': 'ret', 'variant': 1, 'text': 'ret v1', 'uses': UL(V('v1'))},
       expect=['ok', 'rejected'])
    ok('L:count-zero-variant-first:without-operand', cfgL(), {'mnemonic': 'ret', 'variant': 0, 'text': 'ret', 'uses': []})
    ok('L:count-zero-variant-second:with-operand', cfgL(v1=vrange(8)), {'mnemonic': 'rts', 'variant': 0, 'text': 'rts v1', 'uses': UL(V('v1'))},
       expect=['ok', 'rejected'])
    ok('L:count-zero-variant-second:without-operand', cfgL(), {'mnemonic': 'rts', 'variant': 1, 'text': 'rts', 'uses': []})
    for k, text in enumerate(('hlt 5', 'hlt ra', 'ret ra', 'ret 1, 2', 'leave ra', 'leave 1, 2', 'hlt ,')):
        rej(f'L:count-zero-with-operands:{k}', cfgL(), text)
    # M: every listed combination is tried: one that needs more written operands does not end the search, and an
    # `empty` operand may stand first
    R2 = lambda tag, reg: {'type': 'register', 'register': reg, 'bytecode': code(tag, 2)}  # noqa
    insM = {'sf': {'bytecode': code('op_a', 4), 'operands': {'count': 2, 'specific_operands': {
        'ab': {'list': {'r': R2('m_a', 'ra'), 'q': R2('m_b', 'rb')}},
        'a_only': {'list': {'r': R2('m_c', 'ra'), 'e': {'type': 'empty', 'bytecode': code('m_d', 2)}}},
        'e_first': {'list': {'e': {'type': 'empty', 'bytecode': code('m_e', 2)}, 'q': R2('m_f', 'rb')}}}}}}
    cfgM = lambda: isa(instructions=insM)  # noqa
    ok('M:first-listed-combination', cfgM(), {'mnemonic': 'sf', 'text': 'sf ra, rb', 'uses': [{'spec': 'ab', 'id': 'r'}, {'spec': 'ab', 'id': 'q'}]})
    ok('M:combination-after-one-needing-more-operands', cfgM(), {'mnemonic': 'sf', 'text': 'sf ra', 'uses': [{'spec': 'a_only', 'id': 'r'}, {'spec': 'a_only', 'id': 'e'}]})
    ok('M:combination-with-the-empty-operand-first', cfgM(), {'mnemonic': 'sf', 'text': 'sf rb', 'uses': [{'spec': 'e_first', 'id': 'e'}, {'spec': 'e_first', 'id': 'q'}]})
    rej('M:no-listed-combination', cfgM(), 'sf rb, ra')
    rej('M:no-operands-at-all', cfgM(), 'sf')
    rej('D:undeclared-register-form', cfgD2(), 't rb')
    rej('D:indirect-of-unlisted-register', cfgD2(), 't [ix]')
    rej('D:register-in-brackets-as-number', cfgD2(), 't [ra]')
    # the choice does not depend on what was assembled earlier in the run: every accepted statement again, preceded
    # (in a muted region) by the other accepted statements of its ISA - in particular by forms only a later variant takes
    import re as _re
    groups = {}
    for sh in S:
        if type(sh) is InstrShape and 'ok' in sh.params.get('expect', ['ok']):
            c = sh.params['config']
            groups.setdefault(repr(c.get('instructions')) + repr(c.get('operand_sets')) + repr(c.get('macros')), []).append(sh)
    extra = []
    for shs in groups.values():
        for sh in shs:
            others = [_re.sub(r'\bv\d\b', '1', o.params['stmt']['text']) for o in shs if o is not sh]
            others = [t for t in others if 'eqv' not in t]
            if others:
                pr = {k: v for k, v in sh.params.items() if k != 'files'}
                extra.append(InstrShape('after-other-forms:' + sh.sid, prelude=others[:6], **pr))
    return S + extra + random_shapes(tier, seed)


# ---- seeded random ambiguous ISAs ------------------------------------------------------------------------------------
# operand kinds: R register (ra/rb), N numeric expression, M bracketed numeric, E enumeration key.  A position of a
# variant accepts a *set* of kinds (an operand set with one member per kind); whether a variant accepts a statement is
# therefore known by construction, and the expected choice is the first accepting variant (specific operand lists
# before operand sets inside a variant).
def _member(kind, tag, k):
    if kind == 'R':
        return {f'r_ra': REG(f'{tag}_ra', 'ra', 3), f'r_rb': REG(f'{tag}_rb', 'rb', 3)}
    if kind == 'N':
        return {'n': {'type': 'numeric', 'bytecode': code(f'{tag}_n', 3), 'argument': arg(8, True)}}
    if kind == 'M':
        return {'m': {'type': 'indirect_numeric', 'bytecode': code(f'{tag}_m', 3), 'argument': arg(8, True)}}
    if kind == 'E':
        return {'e': {'type': 'enumeration', 'bytecode': {'size': 3, 'value_dict': {'eq': Sym(f'{tag}_e_eq', 0, 7), 'ne': Sym(f'{tag}_e_ne', 0, 7)}},
                      'argument': {'size': 8, 'byte_align': True, 'value_dict': {'eq': Sym(f'{tag}_a_eq', 0, 255), 'ne': Sym(f'{tag}_a_ne', 0, 255)}}}}
    raise ValueError(kind)


def random_ambiguous(rnd, idx):
    n_pos = rnd.choice([1, 1, 2, 2])
    n_var = rnd.randint(2, 4)
    osets, variants, sigs = {}, [], []
    for v in range(n_var):
        npos_v = n_pos if rnd.random() < 0.8 else max(0, n_pos - 1)
        sig = []
        names = []
        for k in range(npos_v):
            kinds = rnd.sample(['R', 'N', 'M', 'E'], rnd.randint(1, 3))
            name = f'v{v}p{k}'
            members = {}
            for kd in kinds:
                members.update(_member(kd, name, k))
            osets[name] = {'operand_values': members}
            sig.append(set(kinds))
            names.append(name)
        vc = {'bytecode': code(f'op{v}', 5)}
        if npos_v:
            vc['operands'] = {'count': npos_v, 'operand_sets': {'list': names}}
        variants.append(vc)
        sigs.append((sig, names))
    ins = dict(variants[0])
    ins['variants'] = variants[1:]
    # the statement
    kinds = [rnd.choice(['R', 'N', 'M', 'E']) for _ in range(rnd.choice([n_pos, n_pos, max(0, n_pos - 1)]))]
    texts, uses_by_variant = [], None
    consts = {}
    rendered = []
    for k, kd in enumerate(kinds):
        if kd == 'R':
            r = rnd.choice(['ra', 'rb'])
            rendered.append((kd, r, {'id': f'r_{r}'}))
        elif kd == 'N':
            consts[f'v{k + 1}'] = vrange(8)
            rendered.append((kd, f'v{k + 1}', {'id': 'n', 'val': V(f'v{k + 1}')}))
        elif kd == 'M':
            consts[f'v{k + 1}'] = vrange(8)
            rendered.append((kd, f'[v{k + 1}]', {'id': 'm', 'val': V(f'v{k + 1}')}))
        else:
            key = rnd.choice(['eq', 'ne'])
            rendered.append((kd, key, {'id': 'e', 'key': key}))
    chosen = None
    via_label = False
    for v, (sig, names) in enumerate(sigs):
        # an enumeration key is also a well-formed label name: a numeric operand accepts its text (and the statement
        # then fails later because no such label exists)
        if len(sig) == len(kinds) and all(kd in allowed or (kd == 'E' and 'N' in allowed) for kd, allowed in zip(kinds, sig)):
            chosen = v
            via_label = any(kd == 'E' and 'E' not in allowed for kd, allowed in zip(kinds, sig))
            break
    text = 'amb' + (' ' + ', '.join(t for _, t, _ in rendered) if rendered else '')
    cfg = isa(operand_sets=osets, instructions={'amb': ins}, consts=consts)
    if chosen is None or via_label:
        return ('reject', f'rnd:{idx}:{"none-accepts" if chosen is None else "key-taken-as-undefined-label"}:{text}', cfg, text)
    uses = []
    for (kd, t, u), name in zip(rendered, sigs[chosen][1]):
        d = {'set': name}
        d.update(u)
        uses.append(d)
    return ('ok', f'rnd:{idx}:variant{chosen}:{text}', cfg, {'mnemonic': 'amb', 'variant': chosen, 'text': text, 'uses': uses})


def random_shapes(tier, seed):
    import random
    rnd = random.Random(1300 + seed)
    S = []
    for i in range(60 if tier == 'quick' else 4000):
        kind, sid, cfg, stmt = random_ambiguous(rnd, f'{seed}.{i}')
        if kind == 'reject':
            S.append(RejectShape(sid, config=cfg, stmt={'mnemonic': 'amb', 'text': stmt, 'uses': []}, props=['C13']))
        else:
            S.append(InstrShape(sid, config=cfg, stmt=stmt, props=['C13'], expect=[], width=48))
    return S
