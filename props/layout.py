"""LayoutShape: whole-assembler PIPE run of a program written in the refasm statement language, judged against the
reference layout model.  Serves C02 (addresses/labels/sizes), C03 (image window), C04 (overlap), C05 (zones),
C14 (fail closed) depending on `props`."""
from __future__ import annotations

import z3

from sx import engine as E
from sx.harness import zv
from sx.pipe import Sym
from .pipe_common import PipeShape, base_config, add_constants
from . import refasm

IGNORED_CLASSES = {'ConditionLine', 'DefineSymbolLine', 'CreateMemzoneLine', 'RequiredLanguageLine', 'LineObject',
                   'PreprocessorLine'}


def layout_config(endian='big', address_bits=16, origin=None, page_size=None, zones=None, global_zone=None,
                  data_blocks=(), consts=None, symbols=None, global_position=0):
    g = {}
    if origin is not None:
        g['origin'] = origin
    if page_size is not None:
        g['page_size'] = page_size
    cfg = base_config(endian=endian, address_size=address_bits, **g)
    cfg['operand_sets']['imm16'] = {'operand_values': {'n': {'type': 'numeric', 'argument': {'size': 16, 'byte_align': True}}}}
    cfg['instructions']['ld16'] = {'bytecode': {'value': 0x20, 'size': 8},
                                   'operands': {'count': 1, 'operand_sets': {'list': ['imm16']}}}
    cfg['instructions']['nib'] = {'bytecode': {'value': 0xA, 'size': 4}}
    # zero operands stated explicitly; and a variant pair taking none / one operand (used by the C14 fault catalogue)
    cfg['instructions']['hlt'] = {'bytecode': {'value': 0xFF, 'size': 8}, 'operands': {'count': 0}}
    cfg['instructions']['ret'] = {'bytecode': {'value': 0xC0, 'size': 8}, 'operands': {'count': 0}, 'variants': [
        {'bytecode': {'value': 0xC1, 'size': 8}, 'operands': {'count': 1, 'operand_sets': {'list': ['imm8']}}}]}
    cfg['operand_sets']['imm12'] = {'operand_values': {'n': {'type': 'numeric', 'argument': {'size': 12, 'byte_align': False}}}}
    cfg['instructions']['ld12'] = {'bytecode': {'value': 0xB, 'size': 4},
                                   'operands': {'count': 1, 'operand_sets': {'list': ['imm12']}}}
    # relative branches, braced and bare (used by the C14 fault catalogue)
    cfg['operand_sets']['relb'] = {'operand_values': {'r': {'type': 'relative_address', 'use_curly_braces': True,
                                                            'argument': {'size': 8, 'byte_align': True}}}}
    cfg['operand_sets']['reln'] = {'operand_values': {'r': {'type': 'relative_address', 'argument': {'size': 8, 'byte_align': True}}}}
    cfg['instructions']['jrb'] = {'bytecode': {'value': 0x30, 'size': 8}, 'operands': {'count': 1, 'operand_sets': {'list': ['relb']}}}
    cfg['instructions']['jrn'] = {'bytecode': {'value': 0x31, 'size': 8}, 'operands': {'count': 1, 'operand_sets': {'list': ['reln']}}}
    # a macro whose steps are not whole bytes: two 4-bit instructions, each padded to its own byte
    cfg['macros'] = {'nn2': [{'instructions': ['nib', 'nib']}]}
    mz = []
    for n, (s, e) in (zones or {}).items():
        mz.append({'name': n, 'start': s, 'end': e})
    if global_zone is not None:
        # the position of the GLOBAL entry in the list carries no meaning
        mz.insert(min(global_position, len(mz)), {'name': 'GLOBAL', 'start': global_zone[0], 'end': global_zone[1]})
    if mz:
        cfg.setdefault('predefined', {})['memory_zones'] = mz
    if data_blocks:
        cfg.setdefault('predefined', {})['data'] = [
            {'name': n, 'address': a, 'size': s, 'value': v} for n, a, s, v in data_blocks]
    if symbols:
        cfg.setdefault('predefined', {})['symbols'] = [{'name': n} for n in symbols]
    add_constants(cfg, consts or {})
    return cfg


class LayoutShape(PipeShape):
    """params: prog, main, cfgargs (dict for layout_config), props (list), start/end/fill, binary"""

    def __init__(self, sid, **params):
        super().__init__(sid, **params)
        a = dict(params['cfgargs'])
        self.params.setdefault('config', layout_config(**a))
        self.params.setdefault('files', refasm.render_program(params['prog']))

    @property
    def width(self):
        return self.params.get('width', 48)

    def expected_outcomes(self):
        return self.params.get('expect', ['ok'])

    def preconditions(self, env):
        for text in self.params.get('assume', []):
            ns = {n: env.z(n) for n in self._symnames()}
            ns.update({'And': z3.And, 'Or': z3.Or, 'Not': z3.Not})
            env.assume(eval(text, {'__builtins__': {}}, ns))

    def _symnames(self):
        return list(self.case.symbols().keys())

    def known_namespace(self):
        return {}

    def _term(self, env, x):
        if isinstance(x, Sym):
            return env.z(x.name)
        return zv(x)

    def ref(self, env):
        a = self.params['cfgargs']
        t = lambda x: self._term(env, x)  # noqa
        zones = {n: (t(s), t(e)) for n, (s, e) in (a.get('zones') or {}).items()}
        gz = a.get('global_zone')
        concrete_consts = {k: v for k, v in (a.get('consts') or {}).items() if isinstance(v, int)}
        return refasm.Ref(
            env, self.params['prog'], self.params.get('main', 'main.asm'), predefined=concrete_consts,
            address_bits=a.get('address_bits', 16), endian=a.get('endian', 'big'),
            origin=t(a.get('origin', 0) or 0), page_size=t(a.get('page_size', 1) or 1), zones=zones,
            global_zone=None if gz is None else (t(gz[0]), t(gz[1])),
            data_blocks=[(n, t(ad), t(s), t(v)) for n, ad, s, v in a.get('data_blocks', ())],
            defined=a.get('symbols') or ())

    def judge(self, env, out):
        props = self.params['props']
        ref = self.ref(env)
        P = lambda p: p in props  # noqa
        obl = []
        first = props[0]
        if out.kind == 'exc' and out.msg.split(':')[0] in ('TypeError', 'AttributeError', 'NameError', 'HarnessError'):
            raise E.HarnessError(f'unexpected exception inside the run: {out.msg}')
        if out.kind in ('exit', 'exc'):
            just = z3.Or(z3.Not(ref.strictly_legal()), ref.overlap(include_muted=True), *ref.must_reject)
            obl.append((f'{first}.rejection_is_justified_by_zone_bounds_or_overlap', just))
            if P('C14'):
                obl.append(('C14.no_image_when_assembly_fails', z3.BoolVal(out.opens == 0 and out.image is None)))
            return obl
        # accepted ------------------------------------------------------------------------------
        if P('C05'):
            obl.append(('C05.accepted_implies_every_byte_inside_its_zone_and_GLOBAL', ref.bytes_inside()))
            obl.append(('C05.accepted_implies_zone_declarations_are_valid',
                        z3.Not(z3.Or(*ref.must_reject)) if ref.must_reject else z3.BoolVal(True)))
        if P('C04'):
            obl.append(('C04.accepted_implies_no_two_lines_share_an_address', z3.Not(ref.overlap())))
            if self.params.get('binary', True):
                # observed on the image: every byte of every unmuted line is there, at its own address
                obl.append(('C04.no_byte_of_an_accepted_program_is_replaced_in_the_image',
                            ref.image_ok(out.image, zv(0), None, zv(0))))
        if P('C02') or P('C05'):
            obl += self._judge_lines(env, out, ref, 'C02' if P('C02') else 'C05')
        if P('C03') and self.params.get('binary', True):
            p = self.params
            end = p.get('end')
            obl.append(('C03.image_is_window_onto_memory_map',
                        ref.image_ok(out.image, self._term(env, p.get('start', 0)),
                                     None if end is None else self._term(env, end), self._term(env, p.get('fill', 0)))))
        if P('C14') and self.params.get('binary', True):
            obl.append(('C14.image_written_exactly_once_on_success', z3.BoolVal(out.opens == 1)))
        return obl

    def _judge_lines(self, env, out, ref, tag):
        by_pos = {}
        for li in out.lines:
            by_pos.setdefault((li.file, li.line_num), []).append(li)
        addr_ok, size_ok, bytes_ok, label_ok = [], [], [], []
        seen = set()
        for r in ref.recs:
            if r.kind == 'predef':
                continue
            cands = [li for li in by_pos.get((r.file, r.line), []) if li.cls not in IGNORED_CLASSES]
            if len(cands) != 1 or not cands[0].compilable:
                return [(f'{tag}.statement_{r.file}_{r.line}_is_assembled_once', z3.BoolVal(False))]
            li = cands[0]
            seen.add((r.file, r.line))
            addr_ok.append(zv(li.address) == r.addr)
            if r.st[0] == 'strdata':
                # a string under a multi-byte data directive: only "emitted == reserved" is claimed
                bytes_ok.append(z3.BoolVal(li.bytes is not None) if li.bytes is None else E.bvval(len(li.bytes)) == zv(li.byte_size))
                continue
            size_ok.append(zv(li.byte_size) == r.size)
            if r.seg is not None:
                if li.bytes is None:
                    bytes_ok.append(z3.BoolVal(False))
                else:
                    bytes_ok.append(E.bvval(len(li.bytes)) == zv(li.byte_size))
                    if r.seg[0] == 'bytes':
                        if len(li.bytes) != len(r.seg[1]):
                            bytes_ok.append(z3.BoolVal(False))
                        else:
                            bytes_ok += [zv(b) & E.bvval(0xff) == e for b, e in zip(li.bytes, r.seg[1])]
                    else:
                        bytes_ok += [zv(b) & E.bvval(0xff) == r.seg[2] for b in li.bytes]
            if r.kind in ('label', 'const'):
                label_ok.append(zv(li.label_value) == ref.labels[r.st[1]])
        extra = [li for li in out.lines if li.compilable and li.cls not in IGNORED_CLASSES
                 and li.cls != 'PredefinedDataLine' and (li.file, li.line_num) not in seen]
        A = lambda xs: z3.And(*xs) if xs else z3.BoolVal(True)  # noqa
        return [
            (f'{tag}.only_selected_lines_are_assembled', z3.BoolVal(not extra)),
            (f'{tag}.every_line_is_placed_after_its_predecessor_in_its_zone', A(addr_ok)),
            (f'{tag}.reserved_size_equals_stated_size', A(size_ok)),
            (f'{tag}.emitted_bytes_match_reserved_size_and_label_values', A(bytes_ok)),
            (f'{tag}.labels_and_constants_have_their_defined_values', A(label_ok)),
        ]

    def describe(self):
        d = super().describe()
        d['cfgargs'] = {k: repr(v) for k, v in self.params['cfgargs'].items()}
        return d
