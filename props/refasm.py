"""Reference layout model ("what the property statements say") for a small directive language, over z3 terms.

A program is a dict {file name: [statement, ...]}; statements are tuples:

  ('org', ast, zone|None)        ('memzone', zone)              ('align', ast|None)
  ('label', name)                ('const', name, ast)
  ('data', '.byte'|'.2byte'|'.4byte'|'.8byte', [ast, ...])
  ('fill', n_ast, v_ast)         ('zero', n_ast)                ('zerountil', ast)
  ('instr', 'nop'|'nib'|'ld8'|'ld16', ast|None)
  ('mute',) ('unmute',)          ('create_memzone', name, start, end)        ('include', file)
  ('if', 0|1|('def', name)|('ndef', name), [stmts], [else stmts])            ('define', name)

Every statement is rendered on its own source line; `walk()` assigns each *assembled* statement its zone,
address, size, emitted bytes (from C02/C05/C11 as stated), the labels their values, and derives the
predicates used by the oracles: legality w.r.t. zones (C05), pairwise overlap (C04), memory map (C03)."""
from __future__ import annotations

import re

import z3

from sx import engine as E
from sx.harness import zv
from . import oracles as O
from .pipe_common import render, evaluate

DATA_W = {'.byte': 1, '.2byte': 2, '.4byte': 4, '.8byte': 8}


# Reference arithmetic is over the integers; all quantities are far below 2^(W-1).  Comparisons of two terms whose
# difference is a constant (same symbolic base) are therefore decided here instead of being left to the bit-vector
# solver, which cannot use "no wrap-around" when simplifying.
def _diff(a, b):
    d = z3.simplify(a - b)
    return d.as_signed_long() if z3.is_bv_value(d) else None


def LE(a, b):
    d = _diff(b, a)
    return z3.BoolVal(d >= 0) if d is not None else a <= b


def LT(a, b):
    d = _diff(b, a)
    return z3.BoolVal(d > 0) if d is not None else a < b


def GE(a, b):
    return LE(b, a)


def GT(a, b):
    return LT(b, a)


def EQ(a, b):
    d = _diff(a, b)
    return z3.BoolVal(d == 0) if d is not None else a == b


def AND(*xs):
    xs = [x for x in xs if not z3.is_true(x)]
    if any(z3.is_false(x) for x in xs):
        return z3.BoolVal(False)
    return z3.And(*xs) if xs else z3.BoolVal(True)


def OR(*xs):
    xs = [x for x in xs if not z3.is_false(x)]
    if any(z3.is_true(x) for x in xs):
        return z3.BoolVal(True)
    return z3.Or(*xs) if xs else z3.BoolVal(False)


def ITE(c, a, b):
    if z3.is_true(c):
        return a
    if z3.is_false(c):
        return b
    return z3.If(c, a, b)


# ------------------------------------------------------------------------------------------------
# rendering
# ------------------------------------------------------------------------------------------------
NUMERIC_LIKE = re.compile(r'^(?:[0-9a-f]+h|b[01]+)$', re.IGNORECASE)


def render_stmt(st) -> list[str]:
    k = st[0]
    if k == 'org':
        return [f'.org {render(st[1])}' + (f' "{st[2]}"' if st[2] else '')]
    if k == 'memzone':
        return [f'.memzone {st[1]}']
    if k == 'align':
        return ['.align' + (f' {render(st[1])}' if st[1] is not None else '')]
    if k == 'label':
        return [f'{st[1]}:']
    if k == 'const':
        return [f'{st[1]} = {render(st[2])}']
    if k == 'data':
        return [f'{st[1]} ' + ', '.join(render(a) for a in st[2])]
    if k == 'strdata':
        return [f'{st[1]} "{st[2]}"']
    if k == 'fill':
        return [f'.fill {render(st[1])}, {render(st[2])}']
    if k == 'zero':
        return [f'.zero {render(st[1])}']
    if k == 'zerountil':
        return [f'.zerountil {render(st[1])}']
    if k == 'instr':
        return [st[1] + (f' {render(st[2])}' if st[2] is not None else '')]
    if k == 'mute':
        return ['#mute']
    if k == 'unmute':
        return ['#unmute']
    if k == 'create_memzone':
        return [f'#create_memzone {st[1]} ${st[2]:x} ${st[3]:x}']
    if k == 'include':
        return [f'#include "{st[1]}"']
    if k == 'define':
        return [f'#define {st[1]}' + (f' {st[2]}' if len(st) > 2 else '')]
    if k == 'if':
        c = st[1]
        head = f'#if {c}' if isinstance(c, int) else (f'#ifdef {c[1]}' if c[0] == 'def' else f'#ifndef {c[1]}')
        out = [head]
        for s in st[2]:
            out += render_stmt(s)
        if st[3] is not None:
            out.append('#else')
            for s in st[3]:
                out += render_stmt(s)
        out.append('#endif')
        return out
    raise ValueError(st)


def render_file(stmts) -> str:
    lines = []
    for st in stmts:
        lines += render_stmt(st)
    return '\n'.join(lines) + '\n'


def render_program(prog: dict) -> dict:
    return {name: render_file(stmts) for name, stmts in prog.items()}


# ------------------------------------------------------------------------------------------------
# reference walk
# ------------------------------------------------------------------------------------------------
class Rec:
    """One assembled statement as the reference sees it."""
    __slots__ = ('file', 'line', 'st', 'zone', 'addr', 'size', 'seg', 'muted', 'kind')

    def __repr__(self):
        return f'Rec({self.file}:{self.line} {self.st[0]} zone={self.zone} addr={z3.simplify(self.addr)} size={z3.simplify(self.size)})'


class Ref:
    def __init__(self, env, prog: dict, main: str, *, address_bits=16, endian='big', origin=0, page_size=1,
                 zones=None, global_zone=None, data_blocks=(), defined=(), predefined=None):
        """zones: {name: (start, end)} predefined (values int | z3 term); global_zone: (start, end) if redefined."""
        self.env = env
        self.prog = prog
        self.endian = endian
        self.page_size = zv(page_size)
        gmax = (1 << address_bits) - 1
        self.zones = {'GLOBAL': [zv(0), zv(gmax)]}
        if global_zone is not None:
            self.zones['GLOBAL'] = [zv(global_zone[0]), zv(global_zone[1])]
        for n, (s, e) in (zones or {}).items():
            self.zones[n] = [zv(s), zv(e)]
        self.cursor = {n: z[0] for n, z in self.zones.items()}
        self.cursor['GLOBAL'] = zv(origin)
        g0 = self.zones['GLOBAL']
        self.origin_outside_global = z3.Or(zv(origin) < g0[0], zv(origin) > g0[1])
        self.labels = {k: zv(v) for k, v in (predefined or {}).items()}
        self.recs: list[Rec] = []
        self.mute = 0
        self.defined = set(defined)
        self.illegal = []            # z3 Bools: some org target / cursor leaves its zone (non-byte edges)
        self.must_reject = []        # z3 Bools: stated reasons for rejecting the program (C05 zone declarations)
        self.address_bits = address_bits
        for n, z in self.zones.items():
            self.must_reject.append(z3.Or(z[0] > z[1], z[1] > zv(gmax)))
            # documentation: every memory zone must be contained in GLOBAL (justifies, but the statement does not
            # demand, rejecting a predefined zone that is not)
            self.illegal.append(z3.Or(z[0] < self.zones['GLOBAL'][0], z[1] > self.zones['GLOBAL'][1]))
        self.pending = []            # (rec, stmt) whose bytes need label values
        self.data_blocks = list(data_blocks)   # (name, address, size, value)
        self._walk_file(main)
        for name, addr, size, value in self.data_blocks:
            r = Rec()
            r.file, r.line, r.st, r.zone, r.kind = '<isa>', 0, ('predef', name), 'GLOBAL', 'predef'
            r.addr, r.size, r.muted = zv(addr), zv(size), False
            r.seg = ('rep', zv(size), zv(value) & E.bvval(0xff))
            self.labels[name] = zv(addr)
            self.recs.append(r)
        for r in self.recs:
            if r.seg == 'later':
                r.seg = self._segment(r)

    # -- statement sizes (C11) --
    def _size(self, st, addr):
        k = st[0]
        if k == 'data':
            return E.bvval(DATA_W[st[1]] * len(st[2]))
        if k == 'strdata':
            # nominal (one value of the directive's width per character); shapes follow the line with an .org, and only
            # "emitted == reserved" is judged for it
            return E.bvval(DATA_W[st[1]] * len(st[2]))
        if k in ('fill', 'zero'):
            return evaluate(st[1], self.env, self.labels)
        if k == 'zerountil':
            t = evaluate(st[1], self.env, self.labels)
            return ITE(GE(t, addr), t - addr + E.bvval(1), E.bvval(0))
        if k == 'instr':
            return E.bvval({'nop': 1, 'nib': 1, 'ld8': 2, 'ld16': 3, 'nn2': 2}[st[1]])
        return E.bvval(0)

    def _segment(self, r: Rec):
        st = r.st
        k = st[0]
        if k == 'data':
            bs = []
            for a in st[2]:
                bs += O.value_bytes(evaluate(a, self.env, self.labels), DATA_W[st[1]], self.endian)
            return ('bytes', bs)
        if k == 'strdata':
            bs = []
            for ch in st[2]:
                bs += O.value_bytes(E.bvval(ord(ch)), DATA_W[st[1]], self.endian)
            return ('bytes', bs)
        if k == 'fill':
            return ('rep', r.size, evaluate(st[2], self.env, self.labels) & E.bvval(0xff))
        if k in ('zero', 'zerountil'):
            return ('rep', r.size, E.bvval(0))
        if k == 'instr':
            m = st[1]
            if m == 'nop':
                return ('bytes', [E.bvval(0x00)])
            if m == 'nib':
                return ('bytes', [E.bvval(0xA0)])
            if m == 'nn2':
                return ('bytes', [E.bvval(0xA0), E.bvval(0xA0)])
            v = evaluate(st[2], self.env, self.labels)
            if m == 'ld8':
                return ('bytes', [E.bvval(0x10)] + O.value_bytes(v, 1, self.endian))
            if m == 'ld16':
                return ('bytes', [E.bvval(0x20)] + O.value_bytes(v, 2, self.endian))
        return None

    def _walk_file(self, fname):
        zone = 'GLOBAL'                                  # every file starts in GLOBAL (C05)
        line = 0
        stack = [(list(self.prog[fname]), None)]

        def emit_lines(stmts):
            nonlocal zone, line
            for st in stmts:
                k = st[0]
                if k == 'if':
                    line += 1                            # the #if line
                    c = st[1]
                    taken = bool(c) if isinstance(c, int) else ((c[1] in self.defined) == (c[0] == 'def'))
                    if taken:
                        emit_lines(st[2])
                    else:
                        line += len(render_file(st[2]).splitlines()) if st[2] else 0
                    if st[3] is not None:
                        line += 1                        # #else
                        if not taken:
                            emit_lines(st[3])
                        else:
                            line += len(render_file(st[3]).splitlines()) if st[3] else 0
                    line += 1                            # #endif
                    continue
                line += 1
                if k == 'include':
                    saved = (zone, line)
                    self._walk_file(st[1])
                    zone, line = saved                   # the includer resumes in its zone (C05/C17)
                    continue
                if k == 'define':
                    self.defined.add(st[1])
                    continue
                if k == 'create_memzone':
                    s, e = zv(st[2]), zv(st[3])
                    g = self.zones['GLOBAL']
                    bad = z3.Or(s > e, e > zv((1 << self.address_bits) - 1), s < g[0], e > g[1])
                    if st[1] in self.zones:
                        bad = z3.BoolVal(True)
                    self.must_reject.append(bad)
                    self.illegal.append(bad)
                    if st[1] not in self.zones:
                        self.zones[st[1]] = [s, e]
                        self.cursor[st[1]] = s
                    continue
                if k == 'mute':
                    self.mute += 1
                    continue
                if k == 'unmute':
                    self.mute = max(0, self.mute - 1)
                    continue
                r = Rec()
                r.file, r.line, r.st, r.kind = fname, line, st, k
                r.muted = self.mute > 0
                r.seg = None
                if k == 'org':
                    val = evaluate(st[1], self.env, self.labels)
                    g = self.zones['GLOBAL']
                    if st[2]:
                        zone = st[2]
                        val = self.zones[zone][0] + val
                    else:
                        zone = 'GLOBAL'
                    z = self.zones[zone]
                    self.illegal.append(OR(LT(val, g[0]), GT(val, g[1]), LT(val, z[0]), GT(val, z[1])))
                    self.cursor[zone] = val
                    r.zone, r.addr, r.size = zone, val, E.bvval(0)
                    self.recs.append(r)
                    continue
                if k == 'memzone':
                    zone = st[1]
                    r.zone, r.addr, r.size = zone, self.cursor[zone], E.bvval(0)
                    self.recs.append(r)
                    continue
                cur = self.cursor[zone]
                if k == 'align':
                    p = evaluate(st[1], self.env, self.labels) if st[1] is not None else self.page_size
                    rem = z3.URem(cur, p)
                    cur = z3.If(rem == 0, cur, cur + (p - rem))   # least multiple of p not below cur (C02)
                    self.cursor[zone] = cur
                r.zone, r.addr = zone, cur
                r.size = self._size(st, cur)
                if k in ('fill', 'zero'):
                    # a negative count has no meaning: nothing could be emitted for the space "reserved"
                    self.must_reject.append(r.size < E.bvval(0))
                if k in ('label', 'const') and NUMERIC_LIKE.match(st[1]):
                    # a name that every reference would read as a numeric literal
                    self.must_reject.append(z3.BoolVal(True))
                if k == 'label':
                    self.labels[st[1]] = cur
                if k == 'const':
                    self.labels[st[1]] = evaluate(st[2], self.env, self.labels)
                if k in ('data', 'strdata', 'fill', 'zero', 'zerountil', 'instr'):
                    r.seg = 'later'
                self.cursor[zone] = cur + r.size
                self.recs.append(r)
        emit_lines(self.prog[fname])

    # -- derived predicates --
    def byte_recs(self, include_muted=False):
        return [r for r in self.recs if r.seg is not None and (include_muted or not r.muted)]

    def bytes_inside(self):
        """C05: every emitted byte lies inside its zone and inside GLOBAL."""
        g = self.zones['GLOBAL']
        cs = []
        for r in self.byte_recs(include_muted=True):
            z = self.zones[r.zone]
            last = r.addr + r.size - E.bvval(1)
            cs.append(OR(LE(r.size, E.bvval(0)), AND(GE(r.addr, z[0]), LE(last, z[1]), GE(r.addr, g[0]), LE(last, g[1]))))
        return AND(*cs)

    def strictly_legal(self):
        """Sufficient condition for 'nothing leaves its zone': every assembled line *starts* inside its zone and
        GLOBAL and ends no later than the zone end; origin targets are inside GLOBAL and their zone."""
        g = self.zones['GLOBAL']
        cs = [z3.Not(c) for c in self.illegal] + [z3.Not(self.origin_outside_global)]
        for r in self.recs:
            if r.kind == 'predef':
                continue
            z = self.zones[r.zone]
            cs.append(AND(GE(r.size, E.bvval(0)), GE(r.addr, z[0]), LE(r.addr, z[1]), LE(r.addr + r.size, z[1] + E.bvval(1)),
                          GE(r.addr, g[0]), LE(r.addr + r.size, g[1] + E.bvval(1))))
        return AND(*cs)

    def overlap(self, include_muted=False):
        rs = self.byte_recs(include_muted)
        cs = []
        for i in range(len(rs)):
            for j in range(i + 1, len(rs)):
                a, b = rs[i], rs[j]
                cs.append(AND(GT(a.size, E.bvval(0)), GT(b.size, E.bvval(0)), LT(a.addr, b.addr + b.size), LT(b.addr, a.addr + a.size)))
        return OR(*cs)

    def max_emitted(self):
        """(exists, highest address that received an emitted byte)"""
        rs = self.byte_recs()
        ex = z3.BoolVal(False)
        mx = E.bvval(0)
        for r in rs:
            has = GT(r.size, E.bvval(0))
            last = r.addr + r.size - E.bvval(1)
            mx = ITE(has, ITE(AND(ex, GT(mx, last)), mx, last), mx)
            ex = OR(ex, has)
        return ex, mx

    def mem_at(self, a, fill):
        """Byte of the memory map at address term `a` (fill where no unmuted line emitted)."""
        res = zv(fill) & E.bvval(0xff)
        for r in reversed(self.byte_recs()):
            inside = AND(GT(r.size, E.bvval(0)), GE(a, r.addr), LT(a, r.addr + r.size))
            if z3.is_false(inside):
                continue
            if r.seg[0] == 'rep':
                val = r.seg[2]
            else:
                val = E.bvval(0)
                for j, b in enumerate(r.seg[1]):
                    val = ITE(EQ(a - r.addr, E.bvval(j)), b, val)
            res = ITE(inside, val, res)
        return res

    def image_ok(self, image, start, end, fill):
        """C03: `image` (list of int|SymInt) is the window [start, end] onto the memory map."""
        start = zv(start)
        ex, mx = self.max_emitted()
        if end is None:
            n = ITE(AND(ex, GE(mx, start)), mx - start + E.bvval(1), E.bvval(0))
        else:
            n = ITE(GE(zv(end), start), zv(end) - start + E.bvval(1), E.bvval(0))
        if image is None:
            return z3.BoolVal(False)
        cs = [EQ(E.bvval(len(image)), n)]
        for o, b in enumerate(image):
            cs.append(zv(b) & E.bvval(0xff) == self.mem_at(start + E.bvval(o), fill))
        return AND(*cs)
