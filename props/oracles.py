"""Reference models written from the property statements (never from the code).  All work on z3 bit-vector
terms of width engine.W so the same text judges symbolic runs and concrete replays (constants simplify)."""
from __future__ import annotations

import z3

from sx import engine as E
from sx.harness import zv


def in_field_range(v, size):
    """C12: a value fits a field of `size` bits in the signed-or-unsigned sense: -2^(size-1) <= v < 2^size."""
    v = zv(v)
    return z3.And(v >= E.bvval(-(1 << (size - 1))), v < E.bvval(1 << size))


def field_bits(v, size, endian):
    """Bits of a `size`-bit field in emission order.  Big endian: most significant bit first.  Little endian:
    bytes in increasing significance, each byte most significant bit first, the partial byte (if any) last."""
    v = zv(v)
    if endian == 'big':
        order = list(range(size - 1, -1, -1))
    elif endian == 'little':
        order = []
        for b in range((size + 7) // 8):
            hi = min(8 * b + 7, size - 1)
            order += list(range(hi, 8 * b - 1, -1))
    else:
        raise ValueError(endian)
    return [z3.Extract(j, j, v) for j in order]


def encode_fields(fields):
    """fields: [(value, size, byte_align, endian)] -> list of W-bit z3 byte terms (zero padded to whole bytes)."""
    bits = []
    zero = z3.BitVecVal(0, 1)
    for v, size, align, endian in fields:
        if align:
            while len(bits) % 8:
                bits.append(zero)
        bits += field_bits(v, size, endian)
    while len(bits) % 8:
        bits.append(zero)
    out = []
    for i in range(0, len(bits), 8):
        out.append(z3.ZeroExt(E.W - 8, z3.Concat(*bits[i:i + 8])))
    return out


def bytes_equal(actual, ref):
    """actual: list of int|SymInt ; ref: list of z3 terms -> z3 Bool (False when lengths differ)."""
    if actual is None or len(actual) != len(ref):
        return z3.BoolVal(False)
    if not ref:
        return z3.BoolVal(True)
    return z3.And(*[zv(a) == r for a, r in zip(actual, ref)])


def value_bytes(v, nbytes, endian):
    """v mod 2^(8*nbytes) as `nbytes` byte terms in the given byte order."""
    v = zv(v)
    bs = [z3.ZeroExt(E.W - 8, z3.Extract(8 * i + 7, 8 * i, v)) for i in range(nbytes)]
    if endian == 'big':
        bs.reverse()
    return bs
