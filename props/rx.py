"""Regular expression (the subset the editor templates and generators use) -> z3 regular expression.

`match_language(pattern, at_bol)` is the set of tokens x such that the pattern matches *starting at the first character
of x*, where x stands alone in operand position: it is preceded by a blank (or by the beginning of the line when
`at_bol`) and followed by the end of the line.  Zero-width assertions are supported at the leading and trailing edge of
each alternative: \\b, ^, $, one-character look-behind, trailing look-ahead, and a pattern that is one look-ahead as a
whole.  Anything else raises Unsupported (the shape is then inconclusive).  Alphabet: printable ASCII.
"""
from __future__ import annotations

import z3


class Unsupported(Exception):
    pass


ALPHABET = [chr(c) for c in range(0x20, 0x7f)]
WORDCH = frozenset(c for c in ALPHABET if c.isalnum() or c == '_')
DIGITS = frozenset('0123456789')
SPACES = frozenset(' ')


def _set_to_z3(chars):
    chars = sorted(set(chars) & set(ALPHABET))
    if not chars:
        return z3.Intersect(z3.Re('a'), z3.Re('b'))         # the empty language
    runs, start, prev = [], chars[0], chars[0]
    for c in chars[1:]:
        if ord(c) != ord(prev) + 1:
            runs.append((start, prev))
            start = c
        prev = c
    runs.append((start, prev))
    parts = [z3.Range(a, b) if a != b else z3.Re(a) for a, b in runs]
    return z3.Union(*parts) if len(parts) > 1 else parts[0]


SIGMA = _set_to_z3(ALPHABET)
ANY = z3.Star(SIGMA)
EMPTY = z3.Intersect(z3.Re('a'), z3.Re('b'))
WORD = _set_to_z3(WORDCH)
NONWORD = _set_to_z3(set(ALPHABET) - WORDCH)


class Parser:
    def __init__(self, text):
        self.t = text
        self.i = 0
        self.ci = False

    def peek(self, n=1):
        return self.t[self.i:self.i + n]

    def parse(self):
        if self.t.startswith('(?i)'):
            self.ci = True
            self.i = 4
        r = self.alt()
        if self.i != len(self.t):
            raise Unsupported(f'trailing text at {self.i}: {self.t[self.i:]!r}')
        return r

    def alt(self):
        items = [self.seq()]
        while self.peek() == '|':
            self.i += 1
            items.append(self.seq())
        return ('alt', items) if len(items) > 1 else items[0]

    def seq(self):
        items = []
        while self.i < len(self.t) and self.peek() not in ('|', ')'):
            items.append(self.atom())
        return ('seq', items)

    def fold(self, chars):
        if not self.ci:
            return frozenset(chars)
        out = set()
        for c in chars:
            out.add(c)
            if c.isalpha():
                out.add(c.lower())
                out.add(c.upper())
        return frozenset(out)

    def escape(self, in_class=False):
        e = self.peek(2)[1:]
        self.i += 2
        if e == '':
            raise Unsupported('dangling backslash')
        if e == 'w':
            return ('set', WORDCH)
        if e == 'd':
            return ('set', DIGITS)
        if e == 's':
            return ('set', SPACES)
        if e == 'n':
            return ('set', frozenset())           # a line break never occurs inside the token
        if e == 'b' and not in_class:
            return ('wb',)
        if e.isalnum():
            raise Unsupported(f'escape \\{e}')
        return ('set', frozenset(e))

    def char_class(self):
        assert self.peek() == '['
        self.i += 1
        neg = False
        if self.peek() == '^':
            neg = True
            self.i += 1
        chars = set()
        first = True
        while True:
            c = self.peek()
            if c == '':
                raise Unsupported('unterminated class')
            if c == ']' and not first:
                self.i += 1
                break
            first = False
            if c == '\\':
                node = self.escape(in_class=True)
                lo = node[1]
                if len(lo) != 1:
                    chars |= lo
                    continue
                a = next(iter(lo))
            else:
                a = c
                self.i += 1
            if self.peek() == '-' and self.peek(2)[1:] not in (']', ''):
                self.i += 1
                b = self.peek()
                if b == '\\':
                    nb = self.escape(in_class=True)
                    if len(nb[1]) != 1:
                        raise Unsupported('range to a class escape')
                    b = next(iter(nb[1]))
                else:
                    self.i += 1
                chars |= {chr(x) for x in range(ord(a), ord(b) + 1)}
            else:
                chars.add(a)
        chars = self.fold(chars)
        if neg:
            chars = frozenset(ALPHABET) - chars
        return ('set', frozenset(chars))

    def atom(self):
        c = self.peek()
        if c == '(':
            if self.peek(3) == '(?:':
                self.i += 3
                r = ('group', self.alt())
            elif self.peek(3) in ('(?=', '(?!'):
                neg = self.peek(3) == '(?!'
                self.i += 3
                r = ('look', True, neg, self.alt())
            elif self.peek(4) in ('(?<=', '(?<!'):
                neg = self.peek(4) == '(?<!'
                self.i += 4
                r = ('look', False, neg, self.alt())
            elif self.peek(2) == '(?':
                raise Unsupported(f'group construct {self.peek(4)}')
            else:
                self.i += 1
                r = ('group', self.alt())
            if self.peek() != ')':
                raise Unsupported('unbalanced group')
            self.i += 1
            if r[0] == 'look':
                return r
            return self.quant(r)
        if c == '\\':
            node = self.escape()
            if node[0] == 'wb':
                return node
            if node[0] == 'set':
                node = ('set', self.fold(node[1]) if len(node[1]) == 1 else node[1])
            return self.quant(node)
        if c == '[':
            return self.quant(self.char_class())
        if c == '.':
            self.i += 1
            return self.quant(('set', frozenset(ALPHABET)))
        if c == '^':
            self.i += 1
            return ('bol',)
        if c == '$':
            self.i += 1
            return ('eol',)
        if c in '*+?{':
            raise Unsupported(f'quantifier without operand at {self.i}')
        self.i += 1
        return self.quant(('set', self.fold(c)))

    def quant(self, r):
        c = self.peek()
        if c == '*':
            self.i += 1
            r = ('rep', r, 0, None)
        elif c == '+':
            self.i += 1
            r = ('rep', r, 1, None)
        elif c == '?':
            self.i += 1
            r = ('rep', r, 0, 1)
        elif c == '{':
            j = self.t.index('}', self.i)
            body = self.t[self.i + 1:j]
            self.i = j + 1
            if ',' in body:
                lo, hi = body.split(',')
                r = ('rep', r, int(lo or 0), int(hi) if hi else None)
            else:
                r = ('rep', r, int(body), int(body))
        else:
            return r
        if self.peek() in ('?', '+'):
            self.i += 1                      # lazy / possessive: same language
        return r


ASSERTS = ('wb', 'bol', 'eol', 'look')


def has_assert(n):
    if n[0] in ASSERTS:
        return True
    if n[0] in ('seq', 'alt'):
        return any(has_assert(x) for x in n[1])
    if n[0] in ('group', 'rep'):
        return has_assert(n[1])
    return False


def to_z3(n):
    k = n[0]
    if k == 'set':
        return _set_to_z3(n[1])
    if k == 'seq':
        items = [to_z3(x) for x in n[1]]
        if not items:
            return z3.Re('')
        return z3.Concat(*items) if len(items) > 1 else items[0]
    if k == 'alt':
        return z3.Union(*[to_z3(x) for x in n[1]])
    if k == 'group':
        return to_z3(n[1])
    if k == 'rep':
        inner, lo, hi = to_z3(n[1]), n[2], n[3]
        if (lo, hi) == (0, None):
            return z3.Star(inner)
        if (lo, hi) == (1, None):
            return z3.Plus(inner)
        if (lo, hi) == (0, 1):
            return z3.Option(inner)
        if hi is None:
            return z3.Concat(z3.Loop(inner, lo, lo), z3.Star(inner))
        return z3.Loop(inner, lo, hi)
    raise Unsupported(f'zero-width assertion inside a consuming part: {k}')


def _flat(n):
    """flatten nested seq / single-alternative groups into one item list"""
    if n[0] == 'seq':
        out = []
        for x in n[1]:
            out += _flat(x) if x[0] in ('seq',) or (x[0] == 'group' and x[1][0] == 'seq' and has_assert(x)) else [x]
        return out
    if n[0] == 'group' and has_assert(n):
        return _flat(n[1])
    return [n]


def normalize(n):
    """-> [(leading assertions, consuming items, trailing assertions)], alternation distributed where it carries assertions"""
    if n[0] == 'alt':
        out = []
        for x in n[1]:
            out += normalize(x)
        return out
    if n[0] == 'group' and has_assert(n):
        return normalize(n[1])
    items = _flat(n)
    lead, trail = [], []
    while items and items[0][0] in ASSERTS:
        lead.append(items.pop(0))
    while items and items[-1][0] in ASSERTS:
        trail.insert(0, items.pop())
    if len(items) == 1 and has_assert(items[0]) and items[0][0] in ('group', 'alt'):
        return [(lead + l, c, t + trail) for (l, c, t) in normalize(items[0])]
    if any(has_assert(x) for x in items):
        raise Unsupported('zero-width assertion inside a sequence')
    return [(lead, items, trail)]


def match_language(pattern, at_bol=False, before=' '):
    """tokens x such that `pattern` matches starting at x[0]; x is preceded by `before` (or the line start) and followed
    by the end of the line"""
    p = Parser(pattern)
    return _match_lang(p.parse(), at_bol, before)


def _match_lang(ast, at_bol, before):
    alts = []
    for lead, core, trail in normalize(ast):
        if not core and len(lead) + len(trail) == 1 and (lead + trail)[0][0] == 'look' and (lead + trail)[0][1] and not (lead + trail)[0][2]:
            # the pattern is one look-ahead: it "matches" where its body matches
            alts.append(_match_lang((lead + trail)[0][3], at_bol, before))
            continue
        restrict = ANY           # constraint on the whole token coming from the leading assertions
        dead = False
        for a in lead:
            if a[0] == 'wb':
                # boundary before x[0]: the char before is `before` (non-word) -> x[0] must be a word character
                restrict = z3.Intersect(restrict, z3.Concat(WORD, ANY)) if before not in WORDCH else \
                    z3.Intersect(restrict, z3.Concat(NONWORD, ANY))
            elif a[0] == 'bol':
                dead = dead or not at_bol
            elif a[0] == 'look' and not a[1]:
                body = a[3]
                if has_assert(body):
                    raise Unsupported('assertion inside a look-behind')
                # one-character look-behind against the known preceding character
                s = z3.Solver()
                inb = s.check(z3.InRe(z3.StringVal(before), to_z3(body))) == z3.sat if not at_bol else False
                ok = (not inb) if a[2] else inb
                dead = dead or not ok
            elif a[0] == 'look' and a[1]:
                inner = _match_lang(a[3], at_bol, before)
                restrict = z3.Intersect(restrict, z3.Complement(inner) if a[2] else inner)
            else:
                raise Unsupported(f'leading {a[0]}')
        if dead:
            continue
        c = to_z3(('seq', core))
        tails = ANY              # what may follow the match inside the token
        lang = None
        for a in trail:          # first everything that constrains the remaining text ...
            if a[0] == 'eol':
                tails = z3.Intersect(tails, z3.Re(''))
            elif a[0] == 'look' and a[1]:
                body = a[3]
                if has_assert(body) and not _only_trailing_eol(body):
                    raise Unsupported('assertion inside a trailing look-ahead')
                inner = _lookahead_lang(body)
                tails = z3.Intersect(tails, z3.Complement(inner) if a[2] else inner)
            elif a[0] != 'wb':
                raise Unsupported(f'trailing {a[0]}')
        if any(a[0] == 'wb' for a in trail):
            # ... then the word boundary at the end of the match: last matched char and next char differ in kind
            # (the end of the line counts as a non-word character)
            w_end = z3.Intersect(c, z3.Concat(ANY, WORD))
            n_end = z3.Intersect(c, z3.Concat(ANY, NONWORD))
            lang = z3.Union(z3.Concat(w_end, z3.Intersect(tails, z3.Union(z3.Re(''), z3.Concat(NONWORD, ANY)))),
                            z3.Concat(n_end, z3.Intersect(tails, z3.Concat(WORD, ANY))))
        if lang is None:
            lang = z3.Concat(c, tails)
        alts.append(z3.Intersect(lang, restrict))
    if not alts:
        return EMPTY
    return z3.Union(*alts) if len(alts) > 1 else alts[0]


def _only_trailing_eol(body):
    try:
        for lead, core, trail in normalize(body):
            if lead or any(t[0] != 'eol' for t in trail):
                return False
        return True
    except Unsupported:
        return False


def _lookahead_lang(body):
    """language of remaining texts v (up to the end of the line) that have a prefix matched by `body`"""
    alts = []
    for lead, core, trail in normalize(body):
        c = to_z3(('seq', core))
        alts.append(c if any(t[0] == 'eol' for t in trail) else z3.Concat(c, ANY))
    return z3.Union(*alts) if len(alts) > 1 else alts[0]
