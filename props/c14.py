"""C14 - assembly always terminates and fails closed (PIPE: every explored path of program families with zero-length
directives in any position, symbolic fill counts, and single-fault corruptions)."""
from __future__ import annotations

import random

import z3

from sx.pipe import Sym
from sx.shims import STUBS  # noqa
from .layout import LayoutShape
from . import c02, refasm

ID = 'C14'
BUDGET_S = {'quick': 170, 'thorough': 3600}
SHAPE_WALL_S = {'quick': 60, 'thorough': 600}
FAMILY = ('PIPE with the image written: (a) seeded random programs with zero-length directives (.fill 0,x / .zero 0 / '
          '.zerountil behind the cursor / empty string) inserted at every position incl. first, last and at an address shared '
          'with another line, fill counts symbolic 0..3; (b) the same programs with one corrupted line (unknown mnemonic, '
          'unresolved label, operand no variant accepts, value its field cannot hold with the value symbolic, garbled '
          'directive, stray token, unbalanced bracket, missing operand)')
BOUNDS = {'fill counts': '0..3', 'origin': '0..0x800', 'per-path decision budget': 4000, 'corruptions': 'catalogue x every line position'}
ASSUMPTIONS = ['termination is claimed per explored path: a path that exhausts its decision budget is replayed through the real '
               'CLI under a 40 s limit and reported as a violation only if the real run does not terminate either',
               '"image created" is observed as the open-for-writing of the output path (stub) and as the file existing (CLI replay)']

V = lambda n: ('v', n)      # noqa
C = lambda n: ('c', n)      # noqa
L = lambda n: ('lbl', n)    # noqa

ZERO_LEN = [('fill', C(0), C(0x55)), ('zero', C(0)), ('fill', V('z'), C(1)), ('zero', V('z')),
            ('zerountil', ('-', V('o0'), C(1)))]


class TermShape(LayoutShape):
    nonterm_is_violation = True
    max_decisions = 4000


class BadProgram(LayoutShape):
    """a program with one corrupted line: success must never be reported and no image may appear"""
    nonterm_is_violation = True

    def expected_outcomes(self):
        return ['rejected']

    def judge(self, env, out):
        obl = [('C14.success_is_never_reported_for_' + self.params['fault'], z3.BoolVal(out.kind != 'ok'))]
        if out.kind != 'ok':
            obl.append(('C14.no_image_when_assembly_fails', z3.BoolVal(out.opens == 0 and out.image is None)))
        return obl

    def describe(self):
        return {'shape': self.sid, 'files': self.params['files'], 'fault': self.params['fault']}


FAULTS = [
    ('an_unknown_instruction', 'frobnicate 1, 2'),
    ('an_unknown_instruction', 'nopp'),
    ('an_unresolvable_label', '.2byte nowhere_defined'),
    ('an_unresolvable_label', 'ld16 missing + 1'),
    ('an_unresolvable_label', '.fill 2, undefined_value'),
    ('an_unresolvable_label', '.fill 0, undefined_value'),
    ('an_unresolvable_label', '.fill z, undefined_value + 1'),
    ('an_unresolvable_label', '.zero undefined_count'),
    ('a_statement_no_variant_accepts', 'ld8'),
    ('a_statement_no_variant_accepts', 'ld8 1, 2'),
    ('a_statement_no_variant_accepts', 'nop 5'),
    ('a_statement_no_variant_accepts', 'ld8 ra'),
    ('a_statement_no_variant_accepts', 'hlt 5'),
    ('a_statement_no_variant_accepts', 'ld8 5,'),
    ('a_statement_no_variant_accepts', 'ld8 ,5'),
    ('a_statement_no_variant_accepts', 'nop ,'),
    ('a_statement_no_variant_accepts', 'ret 1,,'),
    ('a_statement_no_variant_accepts', 'hlt ra'),
    ('a_statement_no_variant_accepts', 'ret 1, 2'),
    ('a_value_its_field_cannot_hold', 'ld8 big'),
    ('a_value_its_field_cannot_hold', 'ld16 big * 256'),
    ('a_value_its_field_cannot_hold', 'ld12 negbig'),
    ('a_value_its_field_cannot_hold', 'ld12 posbig'),
    ('a_value_its_field_cannot_hold', 'ld12 0 - posbig'),
    ('a_garbled_line', '.byte 1 2'),
    ('a_garbled_line', '.byte 1 ]'),
    ('a_garbled_line', '.byte ]'),
    ('a_garbled_line', '.2byte 5 }'),
    ('a_garbled_line', '.byte "a" 5'),
    ('a_garbled_line', '.cstr "a" ]'),
    ('a_garbled_line', '.align 4 ]'),
    ('a_garbled_line', 'kk = 5 ]'),
    ('a_garbled_line', '.org 5 ]'),
    ('a_garbled_line', '.zero 2 ]'),
    ('a_garbled_line', 'nop ]'),
    # long words where punctuation is missing: must fail, and fail in reasonable time
    ('a_garbled_line', '.fill ' + 'a' * 36),
    ('a_garbled_line', '.org ' + 'b' * 40 + ' "'),
    ('a_garbled_line', '.byte ' + 'c' * 40 + ' ]'),
    ('a_garbled_line', 'ld8 ' + 'd' * 40 + ' ]'),
    ('a_garbled_line', 'jrb {' + 'e' * 40),                     # closing brace dropped after a long word
    ('a_garbled_line', 'jrb {' + 'f' * 36 + ' ]'),
    ('a_garbled_line', 'jrn ' + 'g' * 40 + ' "'),
    ('a_statement_no_variant_accepts', 'jrb {o0 + 8} ?? garbage'),   # text after the operand is not ignored
    ('a_statement_no_variant_accepts', 'jrn o0 + 8 ?? garbage'),
    ('a_statement_no_variant_accepts', 'jrn o0 + 7 ! zzz'),
    ('a_statement_no_variant_accepts', 'jrb {o0 + 2}+100'),
    ('a_value_its_field_cannot_hold', '.fill 0 - 2, 5'),         # a negative size
    ('a_value_its_field_cannot_hold', '.zero 0 - 1'),
    ('a_garbled_line', '#include "' + 'h' * 44),                # closing quote dropped after a long name
    ('a_garbled_line', '#include "' + 'i' * 40 + "'"),
    ('a_garbled_line', '#include "' + 'j' * 40 + '!x.asm"'),
    ('a_garbled_line', '#include "lib/' + 'k' * 40),
    ('a_garbled_line', '#create_memzone ' + 'k' * 44),
    ('a_garbled_line', '#create_memzone ' + 'k' * 30 + ' $10 $'),
    ('a_garbled_line', '#require "' + 'l' * 44),
    ('a_garbled_line', '#require "' + 'l' * 30 + ' >= 1.'),
    ('a_garbled_line', '.org'),
    ('a_garbled_line', '.fill 3'),
    ('a_garbled_line', '.byte (1 + 2'),
    ('a_garbled_line', '.2byte 5 +'),
    ('a_garbled_line', 'lbl: lbl2: : nop'),
    ('a_garbled_line', '.memzone NOZONE'),
    ('a_garbled_line', '#else'),
    ('a_garbled_line', '#endif'),
    ('a_garbled_line', '#include "missing_file.asm"'),
    ('a_garbled_line', '#create_memzone Z 10'),
    ('a_garbled_line', '.cstr 5'),
]


def shapes(tier, seed):
    rnd = random.Random(1400 + seed)
    S = []
    n = 80 if tier == 'quick' else 4000
    progs = []
    for i in range(n):
        prog, syms = c02.random_program(rnd, rnd.randint(4, 8), rich_branches=False)
        prog = [st for st in prog if st[0] not in ('org',)]
        prog = [('align', C(4)) if st[0] == 'align' and st[1][0] == 'c' and st[1][1] > 8 else st for st in prog]
        # zero-length directives: first, last and 1-2 random positions
        zl = lambda: rnd.choice(ZERO_LEN)  # noqa
        pos = rnd.choice(['first', 'last', 'both', 'middle'])
        if pos in ('first', 'both'):
            prog.insert(0, zl())
        if pos in ('last', 'both'):
            prog.append(zl())
        for _ in range(rnd.randint(0, 2)):
            prog.insert(rnd.randint(0, len(prog)), zl())
        syms = sorted(set([s for s in syms if s != 'v1'] + ['z']))
        consts = {k: (c02.SYMS[k] if k != 'z' else (0, 3)) for k in syms}
        # termination / fail-closed do not depend on the origin: a concrete (seeded) origin keeps .align from splitting
        # every path by residue class
        org = rnd.randint(0, 0x800)
        consts['o0'] = org
        if 'n' in consts:
            consts['n'] = (0, 3)
        progs.append((prog, consts))
        S.append(TermShape(f'zero-length:{seed}:{i}', prog={'main.asm': prog},
                           cfgargs=dict(origin=org, consts=consts),
                           props=['C14', 'C03'], binary=True, start=org, width=40, expect=[]))
    # a zero-length line that shares its address with a real line placed by .org (historical hang / shadowing)
    S.append(TermShape('zero-length:same-address-via-org',
                       prog={'main.asm': [('data', '.byte', [C(7), C(8)]), ('org', V('o0'), None), ('zero', C(0)),
                                          ('org', ('+', V('o0'), C(1)), None), ('fill', V('z'), C(9))]},
                       cfgargs=dict(origin=Sym('o0', 0, 0x800), consts={'z': (0, 0), 'o0': (0, 0x800)}),
                       props=['C14', 'C03'], binary=True, start=Sym('o0', 0, 0x800), width=40, expect=['ok']))
    S.append(TermShape('zero-length:only-line', prog={'main.asm': [('zero', V('z'))]},
                       cfgargs=dict(origin=Sym('o0', 0, 0x800), consts={'z': (0, 2)}),
                       props=['C14', 'C03'], binary=True, start=Sym('o0', 0, 0x800), width=40, expect=['ok']))
    # corruptions: every fault at a seeded position of a seeded program
    k = 0
    for fault, text in FAULTS:
        for rep in range(1 if tier == 'quick' else 6):
            prog, consts = progs[(k * 7 + rep) % len(progs)]
            k += 1
            lines = refasm.render_file(prog).splitlines()
            # never inside a conditional block (an excluded corrupted line is not assembled)
            cand, d = [], 0
            for i, ln in enumerate(lines + ['']):
                if d == 0:
                    cand.append(i)
                if ln.startswith('#if'):
                    d += 1
                if ln.startswith('#endif'):
                    d -= 1
            at = rnd.choice(cand)
            lines.insert(at, text)
            cs = dict(consts)
            cs['big'] = (70000, 90000)
            cs['negbig'] = (-4095, -2049)       # fits neither the signed nor the unsigned range of a 12-bit field
            cs['posbig'] = (4096, 9000)
            S.append(BadProgram(f'fault:{fault}:{k}', prog={'main.asm': prog}, files={'main.asm': '\n'.join(lines) + '\n'},
                                fault=fault, cfgargs=dict(origin=cs['o0'], consts=cs), props=['C14'], binary=True,
                                start=cs['o0'], width=40))
    # faults that need two files: a name that is visible only in the other file is unresolvable
    two = {
        'file-label-of-the-includer': ({'main.asm': '_t: nop\n#include "inc.asm"\n.byte 1\n', 'inc.asm': '.2byte _t\n'}, 'an_unresolvable_label'),
        'file-constant-of-the-includer': ({'main.asm': '_k = 5\n#include "inc.asm"\nnop\n', 'inc.asm': '.byte _k\n'}, 'an_unresolvable_label'),
        'file-label-of-the-included-file': ({'main.asm': 'nop\n#include "inc.asm"\n.2byte _t\n', 'inc.asm': '_t: .byte 2\n'}, 'an_unresolvable_label'),
        'local-label-of-the-includer': ({'main.asm': 'g: nop\n.x: nop\n#include "inc.asm"\n', 'inc.asm': '.2byte .x\n'}, 'an_unresolvable_label'),
        'file-label-two-levels-up': ({'main.asm': '_t: nop\n#include "a.asm"\n', 'a.asm': 'nop\n#include "b.asm"\n', 'b.asm': '.2byte _t\n'},
                                     'an_unresolvable_label'),
    }
    # faults on lines that emit nothing because they are muted: still faults
    two['unresolvable-label-in-a-muted-region'] = ({'main.asm': 'nop\n#mute\n.2byte nowhere_defined\n#unmute\n.byte 1\n'}, 'an_unresolvable_label')
    two['operand-label-in-a-muted-region'] = ({'main.asm': '#mute\nld16 missing + 1\n#unmute\nnop\n'}, 'an_unresolvable_label')
    two['field-overflow-in-a-muted-region'] = ({'main.asm': 'nop\n#mute\nld8 70000\n#unmute\n'}, 'a_value_its_field_cannot_hold')
    two['no-variant-in-a-muted-region'] = ({'main.asm': '#mute\nld8 ra\n#unmute\nnop\n'}, 'a_statement_no_variant_accepts')
    for name, (files, fault) in two.items():
        S.append(BadProgram(f'fault2:{name}', prog={'main.asm': []}, files=files, fault=fault,
                            cfgargs=dict(origin=Sym('o0', 0, 0x800), consts={'o0': (0, 0x800)}), props=['C14'], binary=True,
                            start=Sym('o0', 0, 0x800), width=40))
    return S
