"""InstrShape: one instruction statement under a generated ISA definition, whole assembler (PIPE), judged against
the reference encoder (isaref).  Serves C01 (PIPE-B), C12 (constraints), C13 and C10 build on it."""
from __future__ import annotations

import copy
import random

import z3

from sx import engine as E
from sx.harness import zv
from sx.pipe import Sym
from . import oracles as O
from . import isaref
from .pipe_common import PipeShape, evaluate, render


def isa(general=None, operand_sets=None, instructions=None, consts=None, zones=None, macros=None):
    g = {'address_size': 16, 'endian': 'big', 'registers': ['ra', 'rb', 'sp', 'ix'], 'min_version': '0.4.0'}
    g.update(general or {})
    cfg = {'description': 'sx generated', 'general': g, 'operand_sets': operand_sets or {},
           'instructions': instructions or {}}
    cfg['instructions'].setdefault('nop', {'bytecode': {'value': 0, 'size': 8}})
    pre = {}
    cs = [{'name': 'o0', 'value': Sym('o0', 0x100, 0x7000)}]
    for n, rng in (consts or {}).items():
        cs.append({'name': n, 'value': Sym(n, rng[0], rng[1]) if isinstance(rng, tuple) else rng})
    pre['constants'] = cs
    if zones:
        pre['memory_zones'] = [{'name': n, 'start': s, 'end': e} for n, (s, e) in zones.items()]
    cfg['predefined'] = pre
    if macros:
        cfg['macros'] = macros
    return cfg


class InstrShape(PipeShape):
    """params: config, stmt {mnemonic, variant, text, uses:[{set|spec,id,val(ast),key,index_id,index_val}]}, props, zones"""

    def __init__(self, sid, **params):
        super().__init__(sid, **params)
        st = params['stmt']
        src = f".org o0\nt0: {st['text']}\nt1: .byte 238\n"
        files = None
        if params.get('muted'):
            # the statement sits in a muted region: it emits nothing but is assembled (and checked) like any other
            src = f".org o0\n#mute\nt0: {st['text']}\n#unmute\nt1: .byte 238\n"
        ctxt = params.get('context')
        if ctxt == 'if1':                 # contexts that must not change what the statement assembles to
            src = f".org o0\n#if 1\nt0: {st['text']}\n#endif\nt1: .byte 238\n"
        elif ctxt == 'else-branch':
            src = f".org o0\n#ifdef NOT_DEFINED_ANYWHERE\n.byte 1, 2, 3\n#else\nt0: {st['text']}\n#endif\nt1: .byte 238\n"
        elif ctxt == 'after-muted-region':
            src = f"#mute\n.byte 9\n#unmute\n.org o0\nt0: {st['text']}\nt1: .byte 238\n"
        elif ctxt == 'included':
            src = f".org o0\n#include \"stmt.asm\"\nt1: .byte 238\n"
            files = {'main.asm': src, 'stmt.asm': f"t0: {st['text']}\n"}
        elif ctxt == 'label-on-own-line':
            src = f".org o0\nt0:\n    {st['text']}   ; comment\nt1:\n\t.byte 238\n"
        elif ctxt == 'uppercase':
            mn = st['text'].split()[0]
            src = f".org o0\nt0: {mn.upper() + st['text'][len(mn):]}\nt1: .byte 238\n"
        if params.get('prelude'):
            # other statements assembled earlier in the same run (in a muted region, so they emit nothing): what the
            # statement under test assembles to must not depend on what was assembled before it
            src = '#mute\n' + '\n'.join(params['prelude']) + '\n#unmute\n' + src
            if files:
                files['main.asm'] = src
        self.params.setdefault('files', files or {'main.asm': src})
        self.params.setdefault('start', Sym('o0', 0x100, 0x7000))

    @property
    def width(self):
        return self.params.get('width', 48)

    def expected_outcomes(self):
        return self.params.get('expect', ['ok'])

    def zones(self, env):
        bits = self.params['config']['general']['address_size']
        z = {'GLOBAL': (0, (1 << bits) - 1)}
        for mz in (self.params['config'].get('predefined', {}).get('memory_zones') or []):
            z[mz['name']] = (isaref.T(env, mz['start']), isaref.T(env, mz['end']))
        return z

    def reference(self, env):
        st = copy.deepcopy(self.params['stmt'])
        cfg = self.params['config']
        o0 = env.z('o0')
        zones = self.zones(env)
        # first pass with dummy labels to learn the size (sizes never depend on values)
        labels = {'t0': o0, 't1': o0}
        for u in st.get('uses', []):
            u['value'] = evaluate(u['val'], env, labels) if u.get('val') is not None else None
            if u.get('index_val') is not None:
                u['index_value'] = evaluate(u['index_val'], env, labels)
        # `lead_bytes`: the statement is the last step of a macro whose earlier steps emit these bytes
        lead = len(self.params['stmt'].get('lead_bytes', ()))
        at = o0 + E.bvval(lead)
        _, _, size = isaref.encode(cfg, st, env, at, zones)
        labels = {'t0': o0, 't1': at + E.bvval(size)}
        for u in st.get('uses', []):
            u['value'] = evaluate(u['val'], env, labels) if u.get('val') is not None else None
            if u.get('index_val') is not None:
                u['index_value'] = evaluate(u['index_val'], env, labels)
        return isaref.encode(cfg, st, env, at, zones)

    def judge(self, env, out):
        props = self.params.get('props', ['C01'])
        tag = props[0]
        if out.kind == 'exc' and out.msg.split(':')[0] in ('TypeError', 'AttributeError', 'NameError', 'HarnessError'):
            raise E.HarnessError(f'unexpected exception inside the run: {out.msg}')
        fields, accept, size = self.reference(env)
        if out.kind != 'ok':
            return [(f'{tag}.statement_satisfying_every_constraint_is_assembled', z3.Not(accept))]
        ref = [E.bvval(b) for b in self.params['stmt'].get('lead_bytes', ())] + O.encode_fields(fields) + [E.bvval(238)]
        if self.params.get('muted'):
            # nothing is emitted, but the addresses advance over the whole statement (incl. the earlier steps of a macro)
            ref = [E.bvval(0)] * (len(self.params['stmt'].get('lead_bytes', ())) + size) + [E.bvval(238)]
        obl = []
        if 'C12' in props:
            obl.append(('C12.accepted_statement_satisfies_every_configured_constraint', accept))
        elif tag == 'C01':
            # a field holds exactly its configured number of bits only if the value fits them
            obl.append(('C01.every_field_value_of_an_accepted_statement_fits_its_configured_bits', accept))
        if True:
            obl.append((f'{tag}.image_is_the_prescribed_bit_layout', z3.Implies(accept, O.bytes_equal(
                None if out.image is None else [E.SymInt(zv(b) & E.bvval(0xff)) for b in out.image], ref))))
        return obl

    def describe(self):
        d = super().describe()
        d['statement'] = self.params['stmt']['text']
        return d


# ------------------------------------------------------------------------------------------------
# helpers to write ISA fragments
# ------------------------------------------------------------------------------------------------
def code(name, size, position=None, lo=0, hi=None):
    d = {'value': Sym(name, lo, (1 << size) - 1 if hi is None else hi), 'size': size}
    if position:
        d['position'] = position
    return d


def arg(size, align=True, endian=None, **kw):
    d = {'size': size, 'byte_align': align}
    if endian:
        d['endian'] = endian
    d.update(kw)
    return d


def V(n):
    return ('v', n)


def L(n):
    return ('lbl', n)


def vrange(size):
    return (-(1 << size), (1 << (size + 1)))
