"""Reference instruction encoder: ISA definition dictionary + statement -> ordered bit fields (C01) and the
value constraints that must hold for the statement to be accepted (C12).  Written from the property statements:

  prefix-positioned operand codes | opcode | suffix-positioned operand codes | opcode suffix | operand arguments

each field with its configured size / byte order / alignment; `reverse_bytecode_order` reverses the operand-code
groups, `reverse_argument_order` the argument group.  Operand codes are big endian and never aligned (they have no
such options); the opcode and its suffix use the instruction's `endian` (default: the ISA default).
Assumption recorded in DESIGN.md: several *prefix* codes appear last operand first."""
from __future__ import annotations

import z3

from sx import engine as E
from sx.harness import zv
from sx.pipe import Sym
from . import oracles as O


def T(env, x):
    if isinstance(x, Sym):
        return env.z(x.name)
    return zv(x)


def variant_cfg(cfg, mnemonic, idx):
    ic = cfg['instructions'][mnemonic]
    vs = []
    if 'bytecode' in ic:
        vs.append(ic)
    vs += ic.get('variants', [])
    return vs[idx]


def operand_def(cfg, vcfg, use):
    ops = vcfg.get('operands') or {}
    if use.get('spec'):
        return ops['specific_operands'][use['spec']]['list'][use['id']], ops['specific_operands'][use['spec']]
    return cfg['operand_sets'][use['set']]['operand_values'][use['id']], ops.get('operand_sets', {})


def encode(cfg, stmt, env, addr, zones):
    """-> (fields, accept, size_bytes).  fields: [(value term, size, byte_align, endian)];  accept: z3 Bool, every
    configured constraint of every operand holds and every value fits its field."""
    default_endian = cfg['general'].get('endian', 'big')
    v = variant_cfg(cfg, stmt['mnemonic'], stmt.get('variant', 0))
    iend = v['bytecode'].get('endian', default_endian)
    opcode = (T(env, v['bytecode']['value']), v['bytecode']['size'], False, iend)
    suffix = None
    if 'suffix' in v['bytecode']:
        suffix = (T(env, v['bytecode']['suffix']['value']), v['bytecode']['suffix']['size'], False, iend)
    prefix_codes, suffix_codes, args, cons = [], [], [], []
    group = None
    pending_rel = []
    for use in stmt.get('uses', []):
        od, group = operand_def(cfg, v, use)
        t = od['type']
        val = use.get('value')          # z3 term of the operand's numeric value, when it has one
        code = None
        if 'bytecode' in od:
            bc = od['bytecode']
            if t in ('enumeration', 'numeric_enumeration'):
                if 'value_dict' in bc:
                    code = (_dict_value(env, bc['value_dict'], use, val, cons), bc['size'], False, 'big')
            elif t == 'numeric_bytecode':
                cons.append(z3.And(val >= T(env, bc['min']), val <= T(env, bc['max'])))
                code = (val, bc['size'], False, 'big')
            elif 'value' in bc:
                code = (T(env, bc['value']), bc['size'], False, 'big')
        if t in ('indexed_register', 'indirect_indexed_register'):
            iod = od['index_operands'][use['index_id']]
            base = code if code is not None else (E.bvval(0), 0, False, 'big')
            if 'bytecode' in iod:
                # the register code and the index operand's code form one field, register code first
                ibc = iod['bytecode']
                isz = ibc['size']
                if iod['type'] == 'numeric_bytecode':
                    iv = use['index_value']          # the index value itself is the code (two's complement in isz bits)
                    cons.append(z3.And(iv >= T(env, ibc['min']), iv <= T(env, ibc['max'])))
                    cons.append(O.in_field_range(iv, isz))
                elif 'value_dict' in ibc:
                    iv = _dict_value(env, ibc['value_dict'], {'key': use.get('index_key')}, use.get('index_value'), cons)
                else:
                    iv = T(env, ibc['value'])
                cv = (base[0] << E.bvval(isz)) | (iv & E.bvval((1 << isz) - 1))
                code = (cv, base[1] + isz, False, 'big')
            else:
                code = base
            if 'argument' in iod:
                a = iod['argument']
                args.append((use['index_value'], a['size'], a['byte_align'], a.get('endian', default_endian)))
            if iod['type'] == 'indirect_register' and 'offset' in iod:
                a = iod['offset']
                args.append((use.get('index_value', E.bvval(0)), a['size'], a['byte_align'], a.get('endian', default_endian)))
        if code is not None:
            pos = od.get('bytecode', {}).get('position', 'suffix')
            if pos == 'prefix':
                prefix_codes.insert(0, code)
            else:
                suffix_codes.append(code)
        # ---- argument ----
        if t in ('numeric', 'indirect_numeric', 'deferred_numeric'):
            a = od['argument']
            if a.get('valid_address'):
                g = zones['GLOBAL']
                cons.append(z3.And(val >= zv(g[0]), val <= zv(g[1])))
            args.append((val, a['size'], a['byte_align'], a.get('endian', default_endian)))
        elif t == 'address':
            a = od['argument']
            z = zones[a.get('memory_zone', 'GLOBAL')]
            cons.append(z3.And(val >= zv(z[0]), val <= zv(z[1])))
            fv = val
            if a.get('slice_lsb') and a.get('match_address_msb'):
                w = E.bvval(a['size'])
                cons.append((val >> w) == (zv(addr) >> w))
                fv = val & E.bvval((1 << a['size']) - 1)
            args.append((fv, a['size'], a['byte_align'], a.get('endian', default_endian)))
        elif t == 'relative_address':
            a = od['argument']
            g = zones['GLOBAL']
            cons.append(z3.And(val >= zv(g[0]), val <= zv(g[1])))
            pending_rel.append((len(args), od, val))
            args.append([None, a['size'], a['byte_align'], a.get('endian', default_endian)])
        elif t == 'enumeration':
            if 'argument' in od and 'value_dict' in od['argument']:
                a = od['argument']
                args.append((_dict_value(env, a['value_dict'], use, None, cons), a['size'], a['byte_align'],
                             a.get('endian', default_endian)))
        elif t == 'numeric_enumeration':
            if 'argument' in od and 'value_dict' in od['argument']:
                a = od['argument']
                args.append((_dict_value(env, a['value_dict'], use, val, cons), a['size'], a['byte_align'],
                             a.get('endian', default_endian)))
        elif t == 'indirect_register' and 'offset' in od:
            a = od['offset']
            args.append((val if val is not None else E.bvval(0), a['size'], a['byte_align'], a.get('endian', default_endian)))
    grp = group or {}
    if grp.get('reverse_bytecode_order'):
        prefix_codes.reverse()
        suffix_codes.reverse()
    if grp.get('reverse_argument_order'):
        args.reverse()
        pending_rel = [(len(args) - 1 - i, od, val) for i, od, val in pending_rel]
    fields = prefix_codes + [opcode] + suffix_codes + ([suffix] if suffix else []) + [tuple(a) if a[0] is not None else a
                                                                                       for a in args]
    # instruction size (bits with alignment) is independent of the values
    bits = 0
    for f in fields:
        if f[2] and bits % 8:
            bits += 8 - bits % 8
        bits += f[1]
    size = (bits + 7) // 8
    nargs0 = len(fields) - len(args)
    for i, od, val in pending_rel:
        rel = val - zv(addr)
        if od.get('offset_from_instruction_end'):
            rel = rel - E.bvval(size - 1)
        a = od['argument']
        if a.get('max') is not None:
            cons.append(rel <= T(env, a['max']))
        if a.get('min') is not None:
            cons.append(rel >= T(env, a['min']))
        f = fields[nargs0 + i]
        fields[nargs0 + i] = (rel, f[1], f[2], f[3])
    for f in fields:
        if f[1] > 0:
            cons.append(O.in_field_range(f[0], f[1]))
    fields = [f for f in fields if f[1] > 0]
    return fields, (z3.And(*cons) if cons else z3.BoolVal(True)), size


def _dict_value(env, d, use, val, cons):
    """value selected from a value dictionary by key text (enumeration) or by numeric value (numeric_enumeration)"""
    if use.get('key') is not None:
        return T(env, d[use['key']])
    res = E.bvval(0)
    hit = []
    for k, dv in d.items():
        res = z3.If(val == E.bvval(k), T(env, dv), res)
        hit.append(val == E.bvval(k))
    cons.append(z3.Or(*hit))
    return res
