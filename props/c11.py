"""C11 - data and fill directives emit exactly the bytes they describe (PIPE: whole assembler, image judged)."""
from __future__ import annotations

import random

import z3

from sx import engine as E
from sx.harness import zv
from sx.pipe import Sym
from sx.shims import STUBS  # noqa
from . import oracles as O
from .pipe_common import PipeShape, base_config, add_constants, render, evaluate

ID = 'C11'
BUDGET_S = {'quick': 150, 'thorough': 3600}
SHAPE_WALL_S = {'quick': 60, 'thorough': 400}
FAMILY = ('PIPE: `.org v0 / pre: .byte 17 / <directives> / tail: .byte 238`, window start = v0; directive x width x '
          'endianness x list length <= 4 x operand forms (symbol, expression, negative, forward/backward label); '
          '.fill/.zero/.zerountil with symbolic count/target/value; strings from a fixed catalogue')
BOUNDS = {'listed values': '|v| < 2^36 (W=48) or |v| < 2^70 for .8byte (W=96)', 'origin v0': '0..0xF000',
          'fill count': '0..5', 'zerountil target': 'current address-3 .. +6', 'terminator': '0..255',
          'strings': 'catalogue of printable ASCII with escapes (enumerated, not symbolic)'}
ASSUMPTIONS = ['the image window [v0, highest emitted address] is rendered faithfully (C03 is checked separately)',
               'escape processing reference = C-style escapes \\n \\t \\\\ \\" \\xHH \\0 as in the documentation']

DATA_W = {'.byte': 1, '.2byte': 2, '.4byte': 4, '.8byte': 8}

# raw text between the quotes -> bytes it denotes (written by hand from the documented escape rules)
STRINGS = [
    ('abc', [97, 98, 99]),
    ('Hello, World!', [72, 101, 108, 108, 111, 44, 32, 87, 111, 114, 108, 100, 33]),
    ('a\\nb', [97, 10, 98]),
    ('tab\\tq', [116, 97, 98, 9, 113]),
    ('\\x41\\x7e', [65, 126]),
    ('back\\\\slash', [98, 97, 99, 107, 92, 115, 108, 97, 115, 104]),
    ('nul\\0x', [110, 117, 108, 0, 120]),
    (' lead and trail ', [32, 108, 101, 97, 100, 32, 97, 110, 100, 32, 116, 114, 97, 105, 108, 32]),
    ('1+2*3', [49, 43, 50, 42, 51]),
    ('#$%&()*', [35, 36, 37, 38, 40, 41, 42]),
    ('x', [120]),
    ('semi;colon', [115, 101, 109, 105, 59, 99, 111, 108, 111, 110]),
    ('a b  c', [97, 32, 98, 32, 32, 99]),
    ('nop', [110, 111, 112]),
    ('.byte 1', [46, 98, 121, 116, 101, 32, 49]),
    ('lbl: x', [108, 98, 108, 58, 32, 120]),
    ('', []),
    ('\\x80\\xff', [128, 255]),
    ('\\x7f\\x80k\\xa9', [127, 128, 107, 169]),
    ('\\200\\377\\177', [128, 255, 127]),
]
# every one-byte hexadecimal escape (8 strings of 32) and a sample of octal ones: one byte per character after escape processing
STRINGS += [(''.join('\\x%02x' % c for c in range(b, b + 32)), list(range(b, b + 32))) for b in range(0, 256, 32)]
STRINGS += [(''.join('\\%03o' % c for c in range(b, b + 16)), list(range(b, b + 16))) for b in (0x78, 0xF0)]
STRINGS_DQ_ONLY = [
    ("it's", [105, 116, 39, 115]),
    ('q\\"q', [113, 34, 113]),
]
STRINGS_SQ_ONLY = [
    ('say "hi"', [115, 97, 121, 32, 34, 104, 105, 34]),
]


class DataShape(PipeShape):
    def expected_outcomes(self):
        return ['ok']

    @property
    def width(self):
        return self.params.get('width', 48)

    def judge(self, env, out):
        if out.kind != 'ok':
            return [('C11.in_range_directive_is_assembled', z3.BoolVal(False))]
        v0 = env.z('v0')
        items = self.params['items']
        # --- reference layout: offsets and labels -------------------------------------------------
        segs = []       # ('bytes', [terms]) | ('rep', n_term, byte_term)
        labels = {'pre': v0}
        off = E.bvval(1)
        pending = []
        for k, it in enumerate(items):
            labels[f'L{k}'] = v0 + off
            pending.append((it, off))
            off = off + self._length(it, env, v0 + off, labels)
        labels['tail'] = v0 + off
        segs.append(('bytes', [E.bvval(17)]))
        for it, o in pending:
            segs.append(self._segment(it, env, labels, v0 + o))
        segs.append(('bytes', [E.bvval(238)]))
        total = E.bvval(0)
        for s in segs:
            total = total + (E.bvval(len(s[1])) if s[0] == 'bytes' else s[1])
        img = out.image
        if img is None:
            return [('C11.image_written', z3.BoolVal(False))]
        conj = [E.bvval(len(img)) == total]
        for p, b in enumerate(img):
            conj.append(zv(b) & E.bvval(0xff) == self._expected_at(segs, p))
        return [('C11.image_equals_described_bytes', z3.And(*conj))]

    def _length(self, it, env, addr, labels=None):
        labels = labels or {}
        k = it[0]
        if k == 'data':
            return E.bvval(DATA_W[it[1]] * len(it[2]))
        if k == 'str':
            return E.bvval(len(it[4]) + (1 if it[5] else 0))
        if k == 'strs':
            return E.bvval(sum(len(x[4]) + (1 if x[5] else 0) for x in it[1]))
        if k == 'fill':
            return evaluate(it[1], env, labels)
        if k == 'zero':
            return evaluate(it[1], env, labels)
        if k == 'zerountil':
            tgt = evaluate(it[1], env, labels)
            return z3.If(tgt >= addr, tgt - addr + E.bvval(1), E.bvval(0))
        raise ValueError(it)

    def _segment(self, it, env, labels, addr):
        k = it[0]
        if k == 'data':
            bs = []
            for a in it[2]:
                bs += O.value_bytes(evaluate(a, env, labels), DATA_W[it[1]], self.params['endian'])
            return ('bytes', bs)
        if k == 'str':
            bs = [E.bvval(c) for c in it[4]]
            if it[5]:
                bs.append(env.z('term') & E.bvval(0xff))
            return ('bytes', bs)
        if k == 'strs':
            bs = []
            for x in it[1]:
                bs += [E.bvval(c) for c in x[4]]
                if x[5]:
                    bs.append(env.z('term') & E.bvval(0xff))
            return ('bytes', bs)
        if k == 'fill':
            return ('rep', evaluate(it[1], env, labels), evaluate(it[2], env, labels) & E.bvval(0xff))
        if k == 'zero':
            return ('rep', evaluate(it[1], env, labels), E.bvval(0))
        if k == 'zerountil':
            return ('rep', self._length(it, env, addr, labels), E.bvval(0))
        raise ValueError(it)

    @staticmethod
    def _expected_at(segs, p):
        pz = E.bvval(p)
        off = E.bvval(0)
        res = E.bvval(0x1ff)        # impossible byte: position beyond the described bytes
        entries = []
        for s in segs:
            if s[0] == 'bytes':
                n = E.bvval(len(s[1]))
                val = E.bvval(0x1ff)
                for j, b in enumerate(s[1]):
                    val = z3.If(pz - off == E.bvval(j), b, val)
            else:
                n = s[1]
                val = s[2]
            entries.append((z3.And(pz >= off, pz < off + n), val))
            off = off + n
        for cond, val in reversed(entries):
            res = z3.If(cond, val, res)
        return res


def _line(it, k):
    kind = it[0]
    if kind == 'data':
        return f'L{k}: {it[1]} ' + ', '.join(render(a) for a in it[2])
    if kind == 'str':
        d, q, raw = it[1], it[2], it[3]
        if len(it) > 6 and it[6] == 'define':
            # the string reaches the directive through a preprocessor symbol
            return f'#define STR{k} {q}{raw}{q}\nL{k}: {d + " " if d else ""}STR{k}'
        return f'L{k}: {d + " " if d else ""}{q}{raw}{q}'
    if kind == 'strs':
        return f'L{k}: ' + ' '.join(f'{x[1] + " " if x[1] else ""}{x[2]}{x[3]}{x[2]}' for x in it[1])
    if kind == 'fill':
        return f'L{k}: .fill {render(it[1])}, {render(it[2])}'
    if kind == 'zero':
        return f'L{k}: .zero {render(it[1])}'
    if kind == 'zerountil':
        return f'L{k}: .zerountil {render(it[1])}'
    raise ValueError(it)


def make(sid, items, endian, consts, width=48, embedded=False, term=False, upper=False):
    general = {}
    if embedded:
        general['allow_embedded_strings'] = True
    if term:
        general['cstr_terminator'] = Sym('term', 0, 255)
    cfg = base_config(endian=endian, **general)
    cs = {'v0': (0, 0xF000)}
    cs.update(consts)
    add_constants(cfg, cs)
    src = ['.org v0', 'pre: .byte 17'] + [_line(it, k) for k, it in enumerate(items)] + ['tail: .byte 238']
    if upper:
        # directive names are matched without regard to case
        import re as _re
        src = [_re.sub(r'^(L\d+: )(\.\w+)', lambda m: m.group(1) + m.group(2).upper(), ln) for ln in src]
    # the image has no gap, so the fill option (any value) must not show anywhere in it
    return DataShape(sid, config=cfg, files={'main.asm': '\n'.join(src) + '\n'}, start=Sym('v0', 0, 0xF000),
                     fill=Sym('wf', -300, 300), items=items, endian=endian, width=width)


def shapes(tier, seed):
    rnd = random.Random(seed)
    out = []
    V = lambda n: ('v', n)  # noqa
    forms = [
        lambda: V('v1'),
        lambda: ('+', V('v1'), ('c', rnd.choice([1, 255, 256, 65535]))),
        lambda: ('neg', V('v2')),
        lambda: ('-', V('v1'), V('v2')),
        lambda: ('lbl', 'tail'),
        lambda: ('lbl', 'pre'),
        lambda: ('+', ('lbl', 'tail'), V('v2')),
        lambda: ('c', rnd.choice([0, 1, 127, 128, 255, 256, -1, -129, 65536, 0x12345678])),
        lambda: ('lsb', V('v1')),
        lambda: ('byte', 1, V('v1')),
        lambda: ('&', V('v1'), ('c', 0xff0)),
        lambda: ('*', V('v2'), ('c', 3)),
    ]
    n_each = 6 if tier == 'quick' else 120
    for d in DATA_W:
        for en in ('big', 'little'):
            big = d == '.8byte'
            lim = (1 << 70) if big else (1 << 36)
            lim2 = (1 << 62) if big else (1 << 30)
            for i in range(n_each):
                ln = 1 + (i % 4)
                vals = [forms[(i * 5 + j * 3 + DATA_W[d]) % len(forms)]() if i < len(forms) else rnd.choice(forms)()
                        for j in range(ln)]
                out.append(make(f'data:{d}:{en}:{i}', [('data', d, vals)], en,
                                {'v1': (-lim, lim), 'v2': (-lim2, lim2)}, width=96 if big else 48))
    # two directives in a row (layout between them), mixed widths
    for i in range(4 if tier == 'quick' else 150):
        d1, d2 = rnd.choice(list(DATA_W)[:3]), rnd.choice(list(DATA_W)[:3])
        out.append(make(f'data2:{i}', [('data', d1, [rnd.choice(forms)() for _ in range(rnd.randint(1, 3))]),
                                       ('data', d2, [rnd.choice(forms)(), ('lbl', 'L0')])],
                        rnd.choice(['big', 'little']), {'v1': (-(1 << 36), 1 << 36), 'v2': (-(1 << 30), 1 << 30)}))
    # fills
    cnt = {'n': (0, 5)}
    fills = [
        [('fill', V('n'), V('v1'))],
        [('fill', V('n'), ('+', V('v1'), ('c', 1)))],
        [('fill', ('+', V('n'), ('c', 1)), ('neg', V('v1')))],
        [('fill', ('c', 3), ('lbl', 'tail'))],
        [('zero', V('n'))],
        [('zero', ('c', 0))],
        [('zero', V('n')), ('data', '.byte', [('lbl', 'tail'), V('v1')])],
        [('fill', V('n'), V('v1')), ('zero', V('m'))],
        [('data', '.2byte', [('lbl', 'L1')]), ('fill', V('n'), ('c', 0xAB)), ('data', '.byte', [('lbl', 'L2')])],
    ]
    for i, f in enumerate(fills):
        for en in (('big', 'little') if tier != 'quick' else ('little',)):
            out.append(make(f'fill:{i}:{en}', f, en, {'n': (0, 5), 'm': (0, 3), 'v1': (-(1 << 20), 1 << 20)}))
    # zerountil: target relative to the origin so that "already past" is reachable
    zu = [
        [('zerountil', ('+', V('v0'), V('t')))],
        [('data', '.byte', [V('v1')]), ('zerountil', ('+', V('v0'), V('t')))],
        [('zerountil', ('+', V('v0'), V('t'))), ('data', '.2byte', [('lbl', 'tail')])],
        [('zerountil', ('+', ('lbl', 'pre'), V('t')))],
    ]
    for i, f in enumerate(zu):
        out.append(make(f'zerountil:{i}', f, 'big', {'t': (-3, 8), 'v1': (-300, 300)}))
    # strings
    sc = STRINGS
    for i, (raw, exp) in enumerate(sc):
        i = f'{i}semicolon' if ';' in raw else i
        for d, q, termd in (('.byte', '"', False), ('.cstr', '"', True), ('.asciiz', "'", True), ('.byte', "'", False)):
            if tier == 'quick' and isinstance(i, int) and (i + len(d)) % 2 and d in ('.asciiz',):
                continue
            out.append(make(f'str:{d}:{"dq" if q == chr(34) else "sq"}:{i}', [('str', d, q, raw, exp, termd)],
                            'big', {}, term=True))
        out.append(make(f'str:embedded:{i}', [('str', None, '"', raw, exp, True)], 'big', {}, embedded=True, term=True))
    for i, (raw, exp) in enumerate(STRINGS + [('a\\\\nb', [97, 92, 110, 98]), ('\\\\x41', [92, 120, 52, 49])]):
        if ';' in raw or raw == '' or (tier == 'quick' and i % 3 and len(raw) > 12):
            continue
        d, q = (('.cstr', '"'), ('.byte', "'"), ('.asciiz', '"'))[i % 3]
        out.append(make(f'strdef:{d}:{i}', [('str', d, q, raw, exp, d != '.byte', 'define')], 'big', {}, term=True))
    # directive names in upper case
    out.append(make('upper:data', [('data', '.byte', [V('v1'), ('c', 7)]), ('data', '.2byte', [('lbl', 'tail'), V('v1')]),
                                   ('data', '.4byte', [V('v1')])], 'little', {'v1': (-(1 << 20), 1 << 20)}, upper=True))
    out.append(make('upper:8byte', [('data', '.8byte', [V('v1')])], 'big', {'v1': (-(1 << 40), 1 << 40)}, width=96, upper=True))
    out.append(make('upper:strings', [('str', '.cstr', '"', 'abc', [97, 98, 99], True), ('str', '.asciiz', "'", 'x', [120], True),
                                      ('str', '.byte', '"', 'a\\nb', [97, 10, 98], False)], 'big', {}, term=True, upper=True))
    out.append(make('upper:fills', [('fill', V('n'), V('v1')), ('zero', V('n')), ('zerountil', ('+', V('v0'), ('c', 40)))], 'big',
                    {'n': (0, 3), 'v1': (-300, 300)}, upper=True))
    # several quoted strings on one line: each ends at its own closing quote
    X = lambda d, q, raw, exp, t: ('str', d, q, raw, exp, t)  # noqa
    several = {
        'two-cstr': [X('.cstr', '"', 'a', [97], True), X('.cstr', '"', 'b', [98], True)],
        'cstr-then-byte-string': [X('.cstr', '"', 'ab', [97, 98], True), X('.byte', "'", 'q', [113], False)],
        'escaped-quote-then-second': [X('.cstr', '"', 'say \\"hi\\"', [115, 97, 121, 32, 34, 104, 105, 34], True), X('.byte', '"', 'z', [122], False)],
        'trailing-backslash-pair-then-second': [X('.byte', '"', 'a\\\\', [97, 92], False), X('.byte', '"', 'q', [113], False)],
        'mixed-quotes': [X('.asciiz', "'", 'it"s', [105, 116, 34, 115], True), X('.cstr', '"', "x'y", [120, 39, 121], True)],
        'three': [X('.byte', '"', 'a', [97], False), X('.byte', '"', 'b', [98], False), X('.cstr', '"', 'c', [99], True)],
    }
    for nm, xs in several.items():
        out.append(make(f'several-strings:{nm}', [('strs', xs), ('data', '.byte', [('lbl', 'tail')])], 'big', {}, term=True))
    for i, (raw, exp) in enumerate(STRINGS_DQ_ONLY):
        out.append(make(f'strdq:{i}', [('str', '.cstr', '"', raw, exp, True)], 'big', {}, term=True))
        out.append(make(f'strdq:emb:{i}', [('str', None, '"', raw, exp, True)], 'big', {}, embedded=True, term=True))
    for i, (raw, exp) in enumerate(STRINGS_SQ_ONLY):
        out.append(make(f'strsq:{i}', [('str', '.cstr', "'", raw, exp, True)], 'big', {}, term=True))
    return out
