"""C17 - including a file is equivalent to assembling its text in place (PIPE; split program vs reference of the whole)."""
from __future__ import annotations

import random

import z3

from sx import engine as E
from sx.pipe import Sym
from sx.shims import STUBS  # noqa
from .layout import LayoutShape
from . import refasm
from . import c02, c05, c06

ID = 'C17'
BUDGET_S = {'quick': 170, 'thorough': 3600}
SHAPE_WALL_S = {'quick': 100, 'thorough': 600}
FAMILY = ('PIPE: (a) single-file programs (labels, instructions, data, fills, .align, #mute, #if blocks, forward/backward '
          'references) split at line boundaries into <= 3 files (nested includes, an extra include directory); the image of '
          'the split program must equal the reference image of the unsplit text for all operand values and origins; '
          '(b) file-scoped and local labels across includes (shared with the C06 resolver); (c) zone selected by the includer '
          'resumes after the include; (d) double include, missing file, name found in two directories must be rejected')
BOUNDS = {'origin': '0..0x1000', 'data values': '|v| < 2^20', 'fill counts': '0..5', 'split points': 'seeded random, <= 2 nesting levels'}
ASSUMPTIONS = ['the reference layout of the unsplit text (C02 model) defines "as if pasted in place"']


class SplitShape(LayoutShape):
    """params: prog (unsplit, for the reference), files (split rendering), include_dirs"""

    def judge(self, env, out):
        if out.kind != 'ok':
            return [('C17.split_program_is_assembled', z3.BoolVal(False))]
        ref = self.ref(env)
        p = self.params
        return [('C17.image_equals_image_of_the_text_pasted_in_place',
                 ref.image_ok(out.image, self._term(env, p['start']), None, 0))]

    def describe(self):
        return {'shape': self.sid, 'files': self.params['files']}


def split(rnd, lines, depth=0, prefix='inc'):
    """lines: rendered source lines of one file -> {file: text}; chooses a chunk to move into an included file"""
    files = {}
    if len(lines) >= 3 and depth < 2:
        # never cut inside a conditional block: cut points are positions with block depth 0
        ok = []
        d = 0
        for i, ln in enumerate(lines):
            if d == 0:
                ok.append(i)
            if ln.startswith('#if'):
                d += 1
            if ln.startswith('#endif'):
                d -= 1
                if d == 0:
                    ok.append(i + 1)
        ok = sorted(set(ok + [len(lines)]))
        if len(ok) >= 2:
            a = rnd.choice(ok[:-1])
            bs = [x for x in ok if x > a]
            b = rnd.choice(bs)
            name = f'{prefix}{depth}.asm'
            sub = split(rnd, lines[a:b], depth + 1, prefix)
            files.update({k: v for k, v in sub.items() if k != '__main__'})
            files[name] = sub['__main__']
            lines = lines[:a] + [f'#include "{name}"'] + lines[b:]
    files['__main__'] = '\n'.join(lines) + '\n'
    return files


def reject_shapes():
    S = []
    nop = [('instr', 'nop', None)]
    mk = lambda sid, files, **kw: S.append(RejectInclude(sid, prog={'main.asm': nop}, cfgargs={'consts': {}}, props=['C17'],  # noqa
                                                         files=files, binary=True, expect=['rejected'], **kw))
    mk('rej:double-include', {'main.asm': '#include "a.asm"\nnop\n#include "a.asm"\n', 'a.asm': 'nop\n'})
    mk('rej:double-include-nested', {'main.asm': '#include "a.asm"\n#include "b.asm"\n', 'a.asm': '#include "b.asm"\n', 'b.asm': 'nop\n'})
    mk('rej:self-include', {'main.asm': 'nop\n#include "main.asm"\n'})
    # text after the file name is neither assembled nor silently dropped
    mk('rej:text-after-the-file-name', {'main.asm': 'nop\n#include "a.asm" .byte 9\n', 'a.asm': 'nop\n'})
    mk('rej:second-include-on-the-line', {'main.asm': 'nop\n#include "a.asm" #include "b.asm"\n', 'a.asm': 'nop\n', 'b.asm': 'nop\n'})
    # one file is one file, however it is named: the main file behind an include guard, a symbolic link
    mk('rej:main-file-included-again-behind-a-guard',
       {'main.asm': '#ifndef ONCE\n#define ONCE 1\n#include "a.asm"\n#endif\n.byte 1\n', 'a.asm': '.byte 2\n#include "main.asm"\n'})
    mk('rej:one-file-under-two-names', {'main.asm': '#include "a.asm"\n#include "b.asm"\nnop\n', 'a.asm': '.byte 2\n', 'b.asm': 'SYMLINK:a.asm'})
    mk('rej:missing-file', {'main.asm': 'nop\n#include "nothere.asm"\n'})
    mk('rej:ambiguous-name', {'main.asm': 'nop\n#include "a.asm"\n', 'd1/a.asm': 'nop\n', 'd2/a.asm': '.byte 2\n'},
       include_dirs=['d1', 'd2'])
    mk('rej:ambiguous-with-source-dir', {'main.asm': 'nop\n#include "a.asm"\n', 'a.asm': 'nop\n', 'd1/a.asm': '.byte 2\n'},
       include_dirs=['d1'])
    return S


class RejectInclude(LayoutShape):
    def judge(self, env, out):
        return [('C17.' + self.sid.split(':')[1].replace('-', '_') + '_is_rejected', z3.BoolVal(out.kind != 'ok'))]

    def describe(self):
        return {'shape': self.sid, 'files': self.params['files']}


def shapes(tier, seed):
    S = []
    rnd = random.Random(1700 + seed)
    n = 40 if tier == 'quick' else 2500
    for i in range(n):
        prog, syms = c02.random_program(rnd, rnd.randint(6, 12), rich_branches=False)
        prog = [st for st in prog if st[0] != 'org']
        prog = [('align', ('c', 4)) if st[0] == 'align' and st[1][0] == 'c' and st[1][1] > 8 else st for st in prog]
        syms = [s for s in syms if s != 'v1']
        lines = refasm.render_file(prog).splitlines()
        files = split(rnd, lines)
        files['main.asm'] = files.pop('__main__')
        inc_dirs = []
        if 'inc1.asm' in files and rnd.random() < 0.5:
            files['lib/inc1.asm'] = files.pop('inc1.asm')      # found through an extra include directory
            inc_dirs = ['lib']
        S.append(SplitShape(f'split:{seed}:{i}', prog={'main.asm': prog}, files=files, include_dirs=inc_dirs,
                            cfgargs=dict(origin=Sym('o0', 0, 0x1000), consts={k: c02.SYMS[k] for k in syms}),
                            props=['C17'], binary=True, start=Sym('o0', 0, 0x1000), width=40, expect=['ok']))
    # mute depth across includes (depth 2 at the include, changes inside and after it)
    M = lambda k: ('data', '.byte', [('c', k)])  # noqa
    whole = [M(0x11), ('mute',), ('mute',), M(0x22), M(0x33), ('unmute',), M(0x44), M(0x55), ('unmute',), M(0x66), ('mute',), M(0x77),
             ('unmute',), M(0x88)]
    for name, cut in (('include-inner', (4, 8)), ('include-from-second-mute', (2, 7)), ('include-tail', (9, 12))):
        a, b = cut
        from . import refasm as _r
        lines = _r.render_file(whole).splitlines()
        files = {'main.asm': '\n'.join(lines[:a] + ['#include "inc.asm"'] + lines[b:]) + '\n', 'inc.asm': '\n'.join(lines[a:b]) + '\n'}
        S.append(SplitShape(f'mute-depth:{name}', prog={'main.asm': whole}, files=files,
                            cfgargs=dict(origin=Sym('o0', 0, 0x1000), consts={}), props=['C17'], binary=True,
                            start=Sym('o0', 0, 0x1000), width=40, expect=['ok']))
    # scopes and zones across includes: the include-related arrangements of the C06 / C05 families, judged under C17
    for name, files in c06.catalogue().items():
        if len(files) > 1:
            s = c06.ScopeShape('scope:' + name, items=files)
            s.params['props'] = ['C17']
            S.append(s)
    for s in c05.pipe_shapes(tier):
        if s.sid == 'include-resumes-zone':
            s.sid = 'zone:' + s.sid
            s.params['props'] = ['C17', 'C05']
            S.append(s)
    # one directory named twice in different spellings (and the source directory named again) is still one directory
    lines = ['.org o0', 'a: .byte 1, LSB(v2)', 'nop', 'b: .2byte a, b', '.byte 9']
    prog = [('org', ('v', 'o0'), None), ('label', 'a'), ('data', '.byte', [('c', 1), ('lsb', ('v', 'v2'))]), ('instr', 'nop', None),
            ('label', 'b'), ('data', '.2byte', [('lbl', 'a'), ('lbl', 'b')]), ('data', '.byte', [('c', 9)])]
    for nm, dirs in {'twice': ['lib', 'lib'], 'dot-slash': ['lib', './lib'], 'round-trip': ['lib', 'lib/../lib'],
                     'trailing-slash': ['lib/', 'lib'], 'source-dir-again': ['.', 'lib'], 'nested-round-trip': ['lib/sub/..', 'lib'],
                     'symbolic-link': ['lib', 'lib2']}.items():
        files = {'main.asm': '\n'.join(lines[:2]) + '\n#include "part.asm"\n' + lines[4] + '\n#include "top.asm"\n',
                 'lib/part.asm': '\n'.join(lines[2:4]) + '\n', 'top.asm': '; nothing\n', 'lib/sub/keep.asm': '; keeps the directory\n'}
        if nm == 'symbolic-link':
            files['lib2'] = 'SYMLINK:lib'
        S.append(SplitShape(f'dirs:{nm}', prog={'main.asm': prog}, files=files,
                            cfgargs=dict(origin=Sym('o0', 0, 0x1000), consts={'v2': c02.SYMS['v2'], 'o0': (0, 0x1000)}),
                            props=['C17'], binary=True, start=Sym('o0', 0, 0x1000), include_dirs=dirs, width=48, expect=['ok']))
    # a comment after the file name is still a comment
    files = {'main.asm': '\n'.join(lines[:2]) + '\n#include "part.asm"   ; the middle part\n' + lines[4] + '\n#include "top.asm";x\n',
             'part.asm': '\n'.join(lines[2:4]) + '\n', 'top.asm': '; nothing\n'}
    S.append(SplitShape('comment-after-the-file-name', prog={'main.asm': prog}, files=files,
                        cfgargs=dict(origin=Sym('o0', 0, 0x1000), consts={'v2': c02.SYMS['v2'], 'o0': (0, 0x1000)}),
                        props=['C17'], binary=True, start=Sym('o0', 0, 0x1000), width=48, expect=['ok']))
    # the quoted file name is a name, not program text: preprocessor symbols that happen to be spelled like one of its words
    # (defined in the source or by the ISA definition) leave it alone
    for nm, (defs, symbols) in {'define-with-value': (['#define part 3', '#define top other'], ()), 'define-bare': (['#define part', '#define asm'], ()),
                                'defined-by-the-isa': ([], ('part', 'asm', 'top')),
                                'define-names-another-file': (['#define part other'], ())}.items():
        files = {'main.asm': '\n'.join(defs + lines[:2]) + '\n#include "part.asm"\n' + lines[4] + '\n#include "top.asm"\n',
                 'part.asm': '\n'.join(lines[2:4]) + '\n', 'top.asm': '; nothing\n', 'other.asm': '.byte $bb\n', '3.asm': '.byte $cc\n'}
        S.append(SplitShape(f'name-is-not-program-text:{nm}', prog={'main.asm': prog}, files=files,
                            cfgargs=dict(origin=Sym('o0', 0, 0x1000), consts={'v2': c02.SYMS['v2'], 'o0': (0, 0x1000)}, symbols=list(symbols)),
                            props=['C17'], binary=True, start=Sym('o0', 0, 0x1000), width=48, expect=['ok']))
    # an #include in an unselected branch has no effect at all: it may name a file that is already included, that does
    # not exist, or that is found in two directories
    prog = [('org', ('v', 'o0'), None), ('instr', 'nop', None), ('data', '.byte', [('c', 7), ('lsb', ('v', 'v2'))]), ('data', '.byte', [('c', 9)])]
    dead = {'already-included': '#include "a.asm"', 'missing': '#include "no_such_file.asm"', 'ambiguous': '#include "twice.asm"'}
    for nm, inc in dead.items():
        for opener in ('#if 0', '#ifdef NOT_DEFINED_ANYWHERE'):
            files = {'main.asm': f'.org o0\nnop\n#include "a.asm"\n{opener}\n{inc}\n#else\n.byte 9\n#endif\n',
                     'a.asm': '.byte 7, LSB(v2)\n', 'twice.asm': 'nop\n', 'lib/twice.asm': 'nop\n'}
            S.append(SplitShape(f'dead-include:{nm}:{opener.split()[0][1:]}', prog={'main.asm': prog}, files=files,
                                cfgargs=dict(origin=Sym('o0', 0, 0x1000), consts={'v2': c02.SYMS['v2'], 'o0': (0, 0x1000)}),
                                props=['C17'], binary=True, start=Sym('o0', 0, 0x1000), include_dirs=['lib'], width=48, expect=['ok']))
    return S + reject_shapes()
