"""C15 - assembly is deterministic (PIPE under a nondeterministic `set`, plus real runs under varied hash seeds).

Run-to-run variation can only enter through the iteration order of sets (hash seed), the working directory and the
order of the include directories.  The iteration order is made a nondeterministic choice of the environment: every
`set` the assembler builds is replaced by a stub whose iteration order the solver chooses, so each iteration forks over
all permutations, and on every such path the output must equal the reference output (which does not know about any
order) for all operand values.  Each replayed witness is additionally run through the real command line under
several hash seeds, from another working directory and with the include directories reversed: all byte-identical."""
from __future__ import annotations

import z3

from sx import shims
from sx.shims import STUBS as _BASE_STUBS
from .layout import LayoutShape
from . import refasm
from .instr import InstrShape
from . import c02, c06, c16, c17, isa_templates

ID = 'C15'
BUDGET_S = {'quick': 240, 'thorough': 3600}
SHAPE_WALL_S = {'quick': 120, 'thorough': 900}
STUBS = list(_BASE_STUBS) + [
    '`set` as built in ' + ', '.join(m.replace('bespokeasm.assembler.', '') for m in shims.NONDET_SET_MODULES)
    + ' -> subclass whose iteration order is chosen by the solver: one order selector per path (%d values, like one hash seed per process) from which the order of every set is derived - all permutations up to %d elements, rotations and reversals up to %d' % (shims.NONDET_SEEDS, shims.NONDET_FULL, shims.NONDET_LIMIT)]
FAMILY = ('PIPE shapes of the C01/C02/C06/C16/C17 families (instructions over 4 registers, zones, labels and scopes, programs '
          'split over include files found through 2-3 include directories, listing / hex / intel_hex / minhex output) run '
          'with every set iteration order; the obligations are those of the families (output == reference for all values), '
          'so the output is the same function of the inputs on every order; real command-line runs of every witness under '
          'hash seeds 0,1,2,3,7,42,1234, absolute paths from another working directory, reversed -I order')
BOUNDS = {'sets': '%d order selectors per path; all permutations up to %d elements, rotations and reversed rotations up to %d, larger sets inconclusive; orders of different sets on one path are correlated' % (shims.NONDET_SEEDS, shims.NONDET_FULL, shims.NONDET_LIMIT),
          'values': 'as in the source families', 'hash seeds of the real runs': '7 values (a sample: the symbolic side covers the orders)'}
ASSUMPTIONS = ['run-to-run variation enters only through set iteration order, the working directory and the include directory '
               'order (dict order is insertion order in CPython >= 3.7)',
               'sets created in other modules, or by set algebra on a stub, iterate in CPython order under PYTHONHASHSEED=0',
               'failure messages are not compared (a failing run produces no output); kind of outcome and image are']

HASH_SEEDS = (1, 2, 3, 7, 42, 1234)


class DetMixin:
    def setup(self, symbolic):
        super().setup(symbolic)
        if symbolic:
            shims.install_nondet_sets()

    def judge(self, env, out):
        return [('C15.' + n.replace('.', '_') + '_whatever_the_iteration_order', p) for n, p in super().judge(env, out)]

    def cli_summary(self, model):
        import shutil
        import tempfile
        dest = tempfile.mkdtemp(prefix='sxc15_')        # one directory for all runs: the inputs are literally the same
        try:
            run = lambda **kw: self.case.run_cli(model, dest=dest, **kw)  # noqa
            base = run(hashseed=0)
            sig = lambda o: (o.kind, o.image, o.stdout if o.kind == 'ok' else None)  # noqa
            diffs = []
            for k in HASH_SEEDS:
                o = run(hashseed=k)
                if sig(o) != sig(base):
                    diffs.append(f'hash seed {k}: {o.kind} {o.image} vs hash seed 0: {base.kind} {base.image}')
            o = run(hashseed=0, reverse_includes=True)
            if sig(o) != sig(base):
                diffs.append('include directories in reverse order')
            o = run(hashseed=0, verbose=3)
            if (o.kind, o.image) != (base.kind, base.image):
                diffs.append('verbosity (-v -v -v)')
            a1 = run(hashseed=0, absolute=True)
            a2 = run(hashseed=0, absolute=True, cwd='/')
            if sig(a1) != sig(a2):
                diffs.append('working directory')
            if (a1.kind, a1.image) != (base.kind, base.image):
                diffs.append('absolute instead of relative paths')
            return {'kind': base.kind, 'image': base.image, 'variation': diffs}
        finally:
            shutil.rmtree(dest, ignore_errors=True)

    def cli_agrees(self, summary, cli):
        return summary['kind'] == cli['kind'] and summary['image'] == cli['image']

    def judge_cli(self, summary, cli):
        return {'C15.byte_identical_for_every_hash_seed_working_directory_and_include_order': not cli.get('variation')}


class DetLayout(DetMixin, LayoutShape):
    pass


class DetPretty(DetMixin, c16.PrettyShape):
    pass


class DetSplit(DetMixin, c17.SplitShape):
    pass


class DetRejectInclude(DetMixin, c17.RejectInclude):
    pass


class DetScope(DetMixin, c06.ScopeShape):
    pass


class DetInstr(DetMixin, InstrShape):
    pass


WRAP = [(c16.PrettyShape, DetPretty), (c17.SplitShape, DetSplit), (c17.RejectInclude, DetRejectInclude), (c06.ScopeShape, DetScope),
        (InstrShape, DetInstr), (LayoutShape, DetLayout)]


def det(shape):
    for base, cls in WRAP:
        if type(shape) is base:
            params = {k: v for k, v in shape.params.items()}
            return cls('det:' + shape.sid, **params)
    return None


def shapes(tier, seed):
    quick = tier == 'quick'
    src = []
    src += [s for s in c02.handwritten() if s.sid in ('hw:mixed-sizes', 'hw:zones', 'hw:cond-excluded-directives', 'hw:muted-region',
                                                      'hw:const', 'hw:predefined-global') or not quick]
    c17s = c17.shapes(tier if not quick else 'quick', seed)
    with_dirs = [s for s in c17s if s.params.get('include_dirs')]
    others = [s for s in c17s if not s.params.get('include_dirs')]
    src += with_dirs[:4 if quick else 120] + others[:4 if quick else 120]
    src += [s for s in c17s if s.sid.startswith('rej:') and s not in src]
    c16s = c16.shapes('quick', seed)
    c16s = [s for s in c16s if not s.sid.startswith('minhex')]      # minhex and gaps: recorded C16 findings, not a question of determinism
    src += [s for s in c16s if ':hand:' in s.sid][:12 if quick else 200] + ([] if quick else c16s[:80])
    c06s = c06.shapes('quick', seed)
    src += c06s[:8 if quick else 150]
    ins = isa_templates.instr_shapes('quick', seed, ['C01'])
    src += [s for s in ins if s.sid.split(':')[0] in ('t4', 't5', 't7', 't8')][:10 if quick else 60]
    # preprocessor symbols whose names contain one another, several on one line: the substitution must not depend on
    # any iteration order (written so that the in-order substitution of the unchanged tree gives the stated values)
    from sx.pipe import Sym
    V, C = (lambda n: ('v', n)), (lambda n: ('c', n))      # noqa
    files = {'main.asm': '#define LEN 2\n#define LEN2 7\n#define XLEN2 9\n.org o0\n.byte LEN2 - LEN, LEN2, LEN\n'
                         '.byte XLEN2 - LEN2, LEN\nk: .byte LSB(v2), LEN2 + LEN\n'}
    prog = [('org', V('o0'), None), ('data', '.byte', [C(5), C(7), C(2)]), ('data', '.byte', [C(2), C(2)]), ('label', 'k'),
            ('data', '.byte', [('lsb', V('v2')), C(9)])]
    src.append(c17.SplitShape('preprocessor-symbols-containing-one-another', prog={'main.asm': prog}, files=files,
                              cfgargs=dict(origin=Sym('o0', 0, 0x1000), consts={'v2': c02.SYMS['v2'], 'o0': (0, 0x1000)}),
                              props=['C17'], binary=True, start=Sym('o0', 0, 0x1000), width=48, expect=['ok']))
    # a listing over several files (two includes and a predefined data block): the order of its sections is fixed
    lst = [s for s in c16s if s.sid.startswith('listing:hand:org-then-include') or s.sid.startswith('listing:hand:include')]
    for s0 in lst[:1]:
        files = {'main.asm': [('data', '.byte', [C(1)]), ('include', 'inc.asm'), ('include', 'inc2.asm'), ('label', 'b'),
                              ('data', '.2byte', [('lbl', 'b'), ('lbl', 'i')])],
                 'inc.asm': [('label', 'i'), ('instr', 'ld8', ('lsb', V('v2'))), ('instr', 'nop', None)],
                 'inc2.asm': [('data', '.byte', [C(7), C(8)]), ('include', 'inc3.asm')],
                 'inc3.asm': [('instr', 'nop', None)]}
        for fmt in ('listing', 'hex'):
            src.append(c16.PrettyShape(f'{fmt}:several-files', prog=files,
                                       cfgargs=dict(origin=0x100, consts={'v2': c02.SYMS['v2']}, data_blocks=[('blk', 0x118, 2, 0x5A)]),
                                       props=['C16'], binary=True, start=0x100, pretty=fmt, width=48))
    # one include directory named under two spellings: which spelling comes last must not show in any output
    for nm, dirs in {'dot-slash': ['lib', './lib'], 'symbolic-link': ['lib', 'lib2'], 'round-trip': ['lib/../lib', 'lib'],
                     'three-spellings': ['./lib', 'lib2', 'lib']}.items():
        progA = {'main.asm': [('data', '.byte', [C(1)]), ('include', 'inc.asm'), ('label', 'b'), ('data', '.2byte', [('lbl', 'b'), ('lbl', 'i')])],
                 'inc.asm': [('label', 'i'), ('instr', 'ld8', ('lsb', V('v2'))), ('instr', 'nop', None)]}
        rendered = refasm.render_program(progA)
        phys = {'main.asm': rendered['main.asm'], 'lib/inc.asm': rendered['inc.asm']}
        if 'lib2' in dirs:
            phys['lib2'] = 'SYMLINK:lib'
        for fmt in ('listing', 'hex'):
            src.append(c16.PrettyShape(f'{fmt}:one-directory-two-spellings:{nm}', prog=progA, files=phys, include_dirs=dirs,
                                       cfgargs=dict(origin=0x100, consts={'v2': c02.SYMS['v2']}),
                                       props=['C16'], binary=True, start=0x100, pretty=fmt, width=48))
    # mnemonics that contain one another (`mov.b`, `mov`, `b`): which one a statement is must not depend on any order
    from .instr import isa, code
    # (`b.mov` next to `b` and `mov` is left out: with several statements allowed on one line it reads as `b.` `mov`)
    insn = {'mov.b': {'bytecode': code('op_mb', 8)}, 'mov': {'bytecode': code('op_m', 8)}, 'b': {'bytecode': code('op_b', 8)},
            'st.w': {'bytecode': code('op_sw', 8)}, 'st': {'bytecode': code('op_s', 8)}}
    for text in ('mov.b', 'mov', 'b', 'st.w'):
        src.append(InstrShape(f'mnemonics-containing-one-another:{text}', config=isa(instructions=dict(insn)),
                              stmt={'mnemonic': text, 'text': text, 'uses': []}, props=['C01'], expect=['ok'], width=48))
    out = []
    for s in src:
        d = det(s)
        if d is not None:
            out.append(d)
    # the shapes written for this property first (cheap and the most telling), the borrowed ones after them
    own = ('preprocessor-symbols', 'mnemonics-containing', 'several-files', 'two-spellings', 'rej:')
    out.sort(key=lambda sh: 0 if any(k in sh.sid for k in own) else 1)
    return out
