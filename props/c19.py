"""C19 - malformed ISA definitions and unmet version requirements are rejected (version / numeric part symbolic)."""
from __future__ import annotations

import copy
import re
import types

import z3

from sx import engine as E
from sx.harness import Shape, under, zv
from sx.pipe import Sym, SymVer
from sx.shims import STUBS  # noqa
from .pipe_common import PipeShape
from .instr import isa, code, arg
from .isa_templates import regs_set

ID = 'C19'
BUDGET_S = {'quick': 170, 'thorough': 3600}
SHAPE_WALL_S = {'quick': 100, 'thorough': 400}
FAMILY = ('(a) whole model load + assembly of `nop` with `min_version` = a.b.c[b1], every component symbolic; '
          '(b) UNIT RequiredLanguageLine for each of == >= <= > < with the required and the declared ISA version symbolic, '
          'and a language-name mismatch; (c) numeric well-formedness with symbolic values: numeric_bytecode min/max, zone '
          'bounds vs address width, GLOBAL start vs origin; (d) single-fault corruption catalogue of a well-formed ISA')
BOUNDS = {'version components': 'min_version 0..31 (and 0..1000 in a second shape), #require 0..1000; pre-release flag 0/1', 'numeric values': 'around the address space bounds',
          'corruptions': 'fixed catalogue (enumerated)', 'bitvector_width': 32}
ASSUMPTIONS = ['packaging.version parses version text correctly (stubbed: a designated token parses to a symbolic tuple)',
               'version order = lexicographic (major, minor, patch), a pre-release ordering before its final release',
               'running assembler version and minimum supported version are read from bespokeasm/__init__.py']


def running_versions():
    import bespokeasm
    import packaging.version as pv

    def tup(s):
        v = pv.parse(s)
        r = list(v.release) + [0, 0, 0]
        return r[:3] + [-1 if v.is_prerelease else 0]
    return tup(bespokeasm.BESPOKEASM_VERSION_STR), tup(bespokeasm.BESPOKEASM_MIN_REQUIRED_STR)


def lex(a, b, strict, final):
    """reference order on tuples of z3 terms / ints"""
    res = z3.BoolVal(final)
    for x, y in reversed(list(zip(a, b))):
        x, y = zv(x), zv(y)
        res = z3.If(x == y, res, (x > y) if strict == '>' else (x < y))
    return res


class MinVersionShape(PipeShape):
    width = 32

    def __init__(self, sid, **params):
        cfg = isa()
        cfg['general']['min_version'] = SymVer('mv', hi=params.get('hi', 31))
        params.setdefault('config', cfg)
        params.setdefault('files', {'main.asm': 'nop\n'})
        super().__init__(sid, **params)

    def expected_outcomes(self):
        return ['ok', 'rejected']

    def judge(self, env, out):
        run, minimum = running_versions()
        mv = [env.z('mv_maj'), env.z('mv_min'), env.z('mv_pat'), -env.z('mv_pre')]
        newer = lex(mv, run, '>', False)
        older = lex(mv, minimum, '<', False)
        must_reject = z3.Or(newer, older)
        if out.kind == 'ok':
            return [('C19.accepted_implies_version_requirement_is_met', z3.Not(must_reject))]
        return [('C19.rejected_implies_requirement_newer_than_running_or_older_than_supported', must_reject)]


class RequireShape(Shape):
    """UNIT: RequiredLanguageLine(op) with symbolic required / declared versions"""
    kind = 'UNIT'
    width = 32

    def setup(self, symbolic):
        if symbolic:
            from sx import shims
            shims.install()

    def expected_outcomes(self):
        return ['ok', 'rejected'] if self.params.get('lang', 'lang') == 'lang' else ['rejected']

    def run(self, env):
        from bespokeasm.assembler.line_object.preprocessor_line.required_language import RequiredLanguageLine
        from bespokeasm.assembler.line_identifier import LineIdentifier
        req = [env.sym(f'r_{k}', 0, 1000) for k in ('maj', 'min', 'pat')]
        dec = [env.sym(f'd_{k}', 0, 1000) for k in ('maj', 'min', 'pat')]
        dpre = env.sym('d_pre', 0, 1)            # 1: the ISA declares a pre-release (`b1`) of d_maj.d_min.d_pat
        op = self.params['op']
        if env.symbolic:
            from sx import shims
            shims._VersionStub.overrides = {'1.2.3': req + [0], '4.5.6': dec + [-dpre]}
            instr = f'#require "{self.params.get("lang", "lang")} {op} 1.2.3"'
            model = types.SimpleNamespace(isa_name='lang', isa_version='4.5.6')
        else:
            instr = f'#require "{self.params.get("lang", "lang")} {op} {req[0]}.{req[1]}.{req[2]}"'
            model = types.SimpleNamespace(isa_name='lang', isa_version=f'{dec[0]}.{dec[1]}.{dec[2]}' + ('b1' if dpre else ''))
        try:
            RequiredLanguageLine(LineIdentifier(1, 'x'), instr, '', None, model, 0)
        except SystemExit as e:
            return ('rejected', str(e.code)[:80])
        except (TypeError, AttributeError, ValueError) as e:
            if env.symbolic:
                # the code does something with the versions that the symbolic version objects do not model
                raise E.Inconclusive(f'version objects used in an unmodelled way: {type(e).__name__}: {e}')
            raise
        finally:
            if env.symbolic:
                from sx import shims
                shims._VersionStub.overrides = {}
        return ('ok', '')

    def judge(self, env, out):
        r = [env.z(f'r_{k}') for k in ('maj', 'min', 'pat')] + [E.bvval(0)]
        d = [env.z(f'd_{k}') for k in ('maj', 'min', 'pat')] + [-env.z('d_pre')]
        eq = z3.And(*[a == b for a, b in zip(d, r)])
        sat = {'==': eq, '>=': lex(d, r, '>', True), '<=': lex(d, r, '<', True), '>': lex(d, r, '>', False),
               '<': lex(d, r, '<', False)}[self.params['op']]
        if self.params.get('lang', 'lang') != 'lang':
            sat = z3.BoolVal(False)
        if out[0] == 'ok':
            return [('C19.require_honoured_implies_name_matches_and_comparison_holds', sat)]
        return [('C19.require_refused_implies_name_differs_or_comparison_fails', z3.Not(sat))]

    def summarize(self, out, model):
        return {'kind': out[0]}


VERSION_TEXTS = ['0.9.0', '1.0.0a1', '1.0.0b2', '1.0.0rc1', '1.0.0', '1.0.1', '1.2.0', '1.10.0', '2.0.0rc2', '2.0.0', '10.0.0']


def version_key(text):
    """semantic-version order written from the rule: release triple, then alpha < beta < rc < final"""
    m = re.match(r'^(\d+)\.(\d+)\.(\d+)(?:(a|b|rc)(\d+))?$', text)
    phase = {'a': 0, 'b': 1, 'rc': 2, None: 3}[m.group(4)]
    return (int(m.group(1)), int(m.group(2)), int(m.group(3)), phase, int(m.group(5) or 0))


class RequireCatalogue(Shape):
    """UNIT, no stub: `#require` on the real version objects for every pair of texts of a catalogue (incl. pre-releases);
    the pair is a K-way choice of the engine, each choice a concrete run"""
    kind = 'UNIT'
    width = 32
    max_paths = 400

    def expected_outcomes(self):
        return ['ok', 'rejected']

    def run(self, env):
        from bespokeasm.assembler.line_object.preprocessor_line.required_language import RequiredLanguageLine
        from bespokeasm.assembler.line_identifier import LineIdentifier
        n = len(VERSION_TEXTS)
        i, j = env.sym('declared', 0, n - 1), env.sym('required', 0, n - 1)
        if env.symbolic:
            i = env.ctx.choose(i.e, rng=(0, n - 1))
            j = env.ctx.choose(j.e, rng=(0, n - 1))
        self.pair = (VERSION_TEXTS[i], VERSION_TEXTS[j])
        instr = f'#require "lang {self.params["op"]} {self.pair[1]}"'
        model = types.SimpleNamespace(isa_name='lang', isa_version=self.pair[0])
        import packaging.version
        import bespokeasm.assembler.line_object.preprocessor_line.required_language as rl
        saved, rl.version = rl.version, packaging.version          # the real parser, also if another shape stubbed it
        try:
            RequiredLanguageLine(LineIdentifier(1, 'x'), instr, '', None, model, 0)
        except SystemExit as e:
            return ('rejected', str(e.code)[:80])
        finally:
            rl.version = saved
        return ('ok', '')

    def judge(self, env, out):
        import operator
        d, r = version_key(self.pair[0]), version_key(self.pair[1])
        sat = {'==': operator.eq, '>=': operator.ge, '<=': operator.le, '>': operator.gt, '<': operator.lt}[self.params['op']](d, r)
        if out[0] == 'ok':
            return [('C19.require_honoured_implies_comparison_holds_in_version_order', z3.BoolVal(sat))]
        return [('C19.require_refused_implies_comparison_fails_in_version_order', z3.BoolVal(not sat))]

    def summarize(self, out, model):
        return {'kind': out[0]}

    def describe(self):
        return {'shape': self.sid, 'versions': VERSION_TEXTS}


class ConfigShape(PipeShape):
    """params: config, accept (python expression over the symbols -> z3 Bool): assembling `nop` succeeds <=> accept"""
    width = 32

    def __init__(self, sid, **params):
        params.setdefault('files', {'main.asm': params.pop('source', 'nop\n')})
        params.setdefault('binary', False)
        super().__init__(sid, **params)

    def expected_outcomes(self):
        return self.params.get('expect', ['ok', 'rejected'])

    def cli_summary(self, model):
        d = super().cli_summary(model)
        if d is not None:
            d['as_json'] = self.case.run_cli(model, config_json=True).kind      # the definition written as (tab-indented) JSON
        return d

    def judge_cli(self, summary, cli):
        d = dict(super().judge_cli(summary, cli))
        d['C19.definition_written_as_json_is_treated_like_the_yaml_one'] = (cli.get('as_json') in (None, cli['kind']))
        return d

    def judge(self, env, out):
        ns = {n: env.z(n) for n in self.case.symbols()}
        ns.update({'And': z3.And, 'Or': z3.Or, 'Not': z3.Not, 'true': z3.BoolVal(True), 'false': z3.BoolVal(False)})
        acc = eval(self.params['accept'], {'__builtins__': {}}, ns)
        if out.kind == 'exc' and out.msg.split(':')[0] in ('NameError', 'HarnessError'):
            raise E.HarnessError(out.msg)
        if out.kind == 'ok':
            return [('C19.accepted_definition_is_well_formed', acc)]
        return [('C19.well_formed_definition_is_not_rejected', z3.Not(acc))]


def good_isa():
    osets = {'regs': regs_set(),
             'imm': {'operand_values': {'n': {'type': 'numeric', 'bytecode': {'value': 1, 'size': 3}, 'argument': arg(8, True)}}},
             'bit': {'operand_values': {'b': {'type': 'numeric_bytecode', 'bytecode': {'size': 3, 'min': 0, 'max': 7}}}}}
    ins = {'mov': {'bytecode': {'value': 3, 'size': 5}, 'operands': {'count': 2, 'operand_sets': {'list': ['regs', 'imm']}}},
           'bset': {'bytecode': {'value': 4, 'size': 5}, 'operands': {'count': 1, 'operand_sets': {'list': ['bit']}}}}
    macros = {'mov2': [{'operands': {'count': 2, 'operand_sets': {'list': ['regs', 'imm']}},
                        'instructions': ['mov @OP(0), @OP(1)', 'mov @OP(0), @OP(1)']}]}
    cfg = isa(operand_sets=osets, instructions=ins, macros=macros)
    for rs in cfg['operand_sets']['regs']['operand_values'].values():
        rs['bytecode']['value'] = 1
    cfg['predefined']['constants'] = []
    cfg['predefined']['memory_zones'] = [{'name': 'ROM', 'start': 0x1000, 'end': 0x1fff}]
    return cfg


def corruptions():
    """(name, mutate(cfg)) single faults; each must make the definition unacceptable"""
    def drop(path):
        def f(c):
            d = c
            for k in path[:-1]:
                d = d[k]
            del d[path[-1]]
        return f

    def setv(path, v):
        def f(c):
            d = c
            for k in path[:-1]:
                d = d[k]
            d[path[-1]] = v
        return f

    def rename(path, old, new):
        def f(c):
            d = c
            for k in path:
                d = d[k]
            d[new] = d.pop(old)
        return f
    return [
        ('missing-general-section', drop(['general'])),
        ('missing-instructions-section', drop(['instructions'])),
        ('missing-operand-sets-section', drop(['operand_sets'])),
        ('mnemonic-is-directive-keyword', rename(['instructions'], 'mov', 'org')),
        ('mnemonic-is-data-keyword', rename(['instructions'], 'bset', 'byte')),
        ('mnemonic-is-keyword-uppercase', rename(['instructions'], 'bset', 'ZERO')),
        ('mnemonic-is-function-keyword-lowercase', rename(['instructions'], 'bset', 'lsb')),
        ('mnemonic-is-function-keyword', rename(['instructions'], 'bset', 'LSB')),
        ('mnemonic-is-byte-function-keyword', rename(['instructions'], 'bset', 'byte3')),
        ('mnemonic-is-byte-function-keyword-mixed-case', rename(['instructions'], 'bset', 'Byte9')),
        ('macro-named-like-function-keyword', rename(['macros'], 'mov2', 'byte0')),
        ('macro-named-like-keyword-uppercase', rename(['macros'], 'mov2', 'ENDIF')),
        ('register-is-function-keyword', setv(['general', 'registers'], ['ra', 'rb', 'sp', 'ix', 'LSB'])),
        ('macro-named-like-keyword', rename(['macros'], 'mov2', 'fill')),
        ('register-is-keyword', setv(['general', 'registers'], ['ra', 'rb', 'sp', 'ix', 'zero'])),
        ('macro-name-equals-instruction-name', rename(['macros'], 'mov2', 'mov')),
        ('macro-name-equals-instruction-name-other-case', rename(['macros'], 'mov2', 'MOV')),
        ('unknown-operand-set', setv(['instructions', 'mov', 'operands', 'operand_sets', 'list'], ['regs', 'nowhere'])),
        ('operand-count-mismatch', setv(['instructions', 'mov', 'operands', 'count'], 3)),
        ('operand-count-missing', drop(['instructions', 'mov', 'operands', 'count'])),
        ('operand-set-list-missing', drop(['instructions', 'mov', 'operands', 'operand_sets', 'list'])),
        ('undeclared-register', setv(['operand_sets', 'regs', 'operand_values', 'ra', 'register'], 'rz')),
        ('instruction-without-bytecode', drop(['instructions', 'bset', 'bytecode'])),
        ('numeric-operand-without-argument', drop(['operand_sets', 'imm', 'operand_values', 'n', 'argument'])),
        ('unknown-operand-type', setv(['operand_sets', 'imm', 'operand_values', 'n', 'type'], 'numerik')),
        ('numeric-bytecode-inverted-range', setv(['operand_sets', 'bit', 'operand_values', 'b', 'bytecode', 'max'], -1)),
        ('zone-inverted', setv(['predefined', 'memory_zones'], [{'name': 'ROM', 'start': 0x2000, 'end': 0x1fff}])),
        ('zone-beyond-address-space', setv(['predefined', 'memory_zones'], [{'name': 'ROM', 'start': 0x1000, 'end': 0x10000}])),
        ('deprecated-memory-block', setv(['predefined', 'memory'], [{'name': 'x', 'address': 0, 'size': 1}])),
        ('unknown-config-file-type', None),
    ]


class CorruptionShape(PipeShape):
    width = 32

    def expected_outcomes(self):
        return self.params.get('expect', ['rejected'])

    def judge(self, env, out):
        if self.params.get('expect') == ['ok']:
            return [('C19.well_formed_definition_is_accepted', z3.BoolVal(out.kind == 'ok'))]
        return [('C19.' + self.sid.split(':')[1].replace('-', '_') + '_is_rejected', z3.BoolVal(out.kind != 'ok'))]


def numeric_family(base, tag=''):
    """symbolic numeric well-formedness of a definition built by `base()`"""
    S = []
    # (c) numeric well-formedness -----------------------------------------------------------------------------------
    c = base()
    c['operand_sets']['bit']['operand_values']['b']['bytecode'].update(min=Sym('bmin', -4, 12), max=Sym('bmax', -4, 12))
    S.append(ConfigShape(tag + 'numeric-bytecode-range', config=c, accept='bmax >= bmin'))
    for one_sided in (None, 'min', 'max'):
        c = base()
        a = {'size': 8, 'byte_align': True, 'min': Sym('rmin', -6, 6), 'max': Sym('rmax', -6, 6)}
        if one_sided:
            a.pop(one_sided)
        c['operand_sets']['rel'] = {'operand_values': {'r': {'type': 'relative_address', 'argument': a}}}
        c['instructions']['jrel'] = {'bytecode': {'value': 9, 'size': 8}, 'operands': {'count': 1, 'operand_sets': {'list': ['rel']}}}
        S.append(ConfigShape(tag + f'relative-offset-range{"-without-" + one_sided if one_sided else ""}', config=c,
                             accept='rmax >= rmin' if not one_sided else 'true', expect=['ok', 'rejected'] if not one_sided else ['ok']))
    for bits in (8, 16):
        top = (1 << bits) - 1
        c = base()
        c['general']['address_size'] = bits
        c['predefined']['memory_zones'] = [{'name': 'ROM', 'start': Sym('zs', 0, top + 4), 'end': Sym('ze', 0, top + 4)}]
        S.append(ConfigShape(tag + f'zone-bounds-{bits}bit', config=c, accept=f'And(zs <= ze, ze <= {top})'))
        c = base()
        c['general']['address_size'] = bits
        c['general']['origin'] = Sym('org', 0, top + 4)
        c['predefined']['memory_zones'] = [{'name': 'GLOBAL', 'start': Sym('gs', 0, top), 'end': Sym('ge', 0, top + 4)}]
        # assembling `nop` at the origin needs one byte inside GLOBAL
        S.append(ConfigShape(tag + f'global-vs-origin-{bits}bit', config=c,
                             accept=f'And(gs <= ge, ge <= {top}, gs <= org, org <= ge)'))
    # a predefined zone against a redefined GLOBAL, wherever GLOBAL stands in the list of zones
    for pos, nm in ((0, 'global-first'), (1, 'global-last'), (1, 'global-between')):
        c = base()
        c['general']['origin'] = 0x20
        mz = [{'name': 'ROM', 'start': Sym('zs', 0, 0x90), 'end': Sym('ze', 0, 0x90)}]
        if nm == 'global-between':
            mz.append({'name': 'RAM', 'start': 0x30, 'end': 0x3f})
        mz.insert(pos, {'name': 'GLOBAL', 'start': Sym('gs', 0, 0x20), 'end': Sym('ge', 0x40, 0x90)})
        c['predefined']['memory_zones'] = mz
        S.append(ConfigShape(tag + f'zone-vs-redefined-global:{nm}', config=c, accept='And(zs <= ze, gs <= zs, ze <= ge)'))
    # operand count against the operand list: the count is symbolic, the list length enumerated (incl. the empty list)
    for where in ('instruction', 'macro', 'variant'):
        for k, lst in enumerate(([], ['regs'], ['regs', 'imm'], ['regs', 'imm', 'bit'])):
            c = base()
            ops = {'count': Sym('cnt', 0, 4), 'operand_sets': {'list': list(lst)}}
            if where == 'instruction':
                c['instructions']['mov']['operands'] = ops
            elif where == 'macro':
                c['macros']['mov2'][0]['operands'] = ops
                c['macros']['mov2'][0]['instructions'] = ['nop', 'nop']
            else:
                c['instructions']['bset']['variants'] = [{'bytecode': {'value': 9, 'size': 5}, 'operands': ops}]
            S.append(ConfigShape(tag + f'operand-count-vs-list:{where}:{k}', config=c, accept=f'cnt == {k}'))
    for k in (1, 2):
        c = base()
        lst = {'r': {'type': 'register', 'register': 'rb', 'bytecode': {'value': 1, 'size': 3}},
               'n': {'type': 'numeric', 'argument': arg(8, True)}}
        if k == 1:
            del lst['n']
        c['instructions']['bset']['variants'] = [{'bytecode': {'value': 9, 'size': 5}, 'operands': {
            'count': Sym('cnt', 0, 4), 'specific_operands': {'one': {'list': lst}}}}]
        S.append(ConfigShape(tag + f'operand-count-vs-specific-list:{k}', config=c, accept=f'cnt == {k}'))
    return S


def shapes(tier, seed):
    S = [MinVersionShape('min-version'), MinVersionShape('min-version-wide', hi=1000)]
    for op in ('==', '>=', '<=', '>', '<'):
        S.append(RequireShape(f'require:{op}', op=op))
    S.append(RequireShape('require:other-language', op='>=', lang='other'))
    for op in ('==', '>=', '<=', '>', '<'):
        S.append(RequireCatalogue(f'require-catalogue:{op}', op=op))
    S += numeric_family(good_isa)
    # the language name of #require is the declared name itself (whole pipeline: the model builds the name)
    for nm, declared, required, ok in (('dotted', 'acme.cpu', 'acme.cpu', True), ('dotted-vs-underscore', 'acme.cpu', 'acme_cpu', False),
                                       ('hyphen', 'acme-cpu', 'acme-cpu', True), ('hyphen-vs-underscore', 'acme-cpu', 'acme_cpu', False),
                                       ('digits', 'cpu6502', 'cpu6502', True), ('other-name', 'acme', 'acm', False)):
        c = good_isa()
        c['general']['identifier'] = {'name': declared, 'version': '1.2.0'}
        S.append(ConfigShape(f'require-name:{nm}', config=c, source=f'#require "{required} >= 1.0.0"\nnop\n',
                             accept='true' if ok else 'false', expect=['ok'] if ok else ['rejected']))
    # a requirement that cannot be read is not a satisfied one: the name matches here, so only the form decides
    c = good_isa()
    c['general']['identifier'] = {'name': 'acme', 'version': '1.2.0'}
    for k, line in enumerate(('#require "acme != 1.0.0"', '#require "acme ~= 1.2.0"', '#require acme', '#require "acme >= 1.0.0',
                              '#require "acme >= abc"', '#require "acme => 1.0.0"', '#require "acme >= 1.0.0" trailing',
                              '#require "acme >= 9.0.0', '#require \'acme >= 9.0.0\'')):
        S.append(ConfigShape(f'require-form:unreadable:{k}', config=c, source=line + '\nnop\n', accept='false', expect=['rejected']))
    for k, line in enumerate(('#require "acme"', '#require "acme >= 1.0.0"   ; comment', '#require   "acme == 1.2.0"', '#require "acme<=1.2.0"',
                              '#require "acme >= 1.0"', '#REQUIRE "acme >= 1.0.0"'[:0] or '#require "acme > 1.1"')):
        S.append(ConfigShape(f'require-form:readable:{k}', config=c, source=line + '\nnop\n', accept='true', expect=['ok']))
    # (d) corruption catalogue -------------------------------------------------------------------------------------
    S.append(CorruptionShape('wellformed:baseline', config=good_isa(), files={'main.asm': 'mov ra, 5\nbset 3\nmov2 rb, 1\n'},
                             expect=['ok']))
    for name, mut in corruptions():
        if mut is None:
            continue
        c = good_isa()
        mut(c)
        S.append(CorruptionShape(f'corrupt:{name}', config=c, files={'main.asm': 'nop\n'}))
    if tier != 'quick':
        # the same single faults applied to structurally different well-formed definitions
        import random
        rnd = random.Random(1900 + seed)
        for b in range(12):
            def base():
                c = good_isa()
                g = c['general']
                g['endian'] = ['big', 'little'][b % 2]
                g['address_size'] = [8, 12, 16, 24][b % 4]
                if b % 3 == 0:
                    c['predefined']['memory_zones'] = [{'name': 'GLOBAL', 'start': 0, 'end': (1 << g['address_size']) - 1},
                                                       {'name': 'ROM', 'start': 0x10, 'end': 0x7f}]
                else:
                    c['predefined']['memory_zones'] = [{'name': 'ROM', 'start': 0x10, 'end': 0x7f}]
                if b % 2:
                    c['instructions']['mov']['variants'] = [{'bytecode': {'value': 9, 'size': 5}, 'operands': {
                        'count': 1, 'specific_operands': {'one': {'list': {'r': {'type': 'register', 'register': 'rb',
                                                                                'bytecode': {'value': 1, 'size': 3}}}}}}}]
                if b % 4 == 2:
                    g['identifier'] = {'name': 'lang', 'version': '1.0.0'}
                return c
            S.append(CorruptionShape(f'wellformed:variation{b}', config=base(), files={'main.asm': 'mov ra, 5\nbset 3\nmov2 rb, 1\n'},
                                     expect=['ok']))
            for name, mut in corruptions():
                if mut is None or name.startswith('zone-'):
                    continue
                c = base()
                try:
                    mut(c)
                except KeyError:
                    continue
                S.append(CorruptionShape(f'corrupt{b}:{name}', config=c, files={'main.asm': 'nop\n'}))
            S += numeric_family(base, f'v{b}:')
    return S
