"""C05 - memory zones confine and sequence the code assigned to them (UNIT on the zone classes + PIPE)."""
from __future__ import annotations

import z3

from sx import engine as E
from sx.harness import Shape, under, zv
from sx.pipe import Sym
from sx.shims import STUBS  # noqa
from .layout import LayoutShape

ID = 'C05'
BUDGET_S = {'quick': 170, 'thorough': 3600}
SHAPE_WALL_S = {'quick': 150, 'thorough': 900}
FAMILY = ('UNIT: MemoryZone.__init__, current_address setter, MemoryZoneManager.__init__/create_zone with symbolic '
          'bounds for address widths {4,8,12,16,32,64}; PIPE: zone layouts (predefined with symbolic bounds, redefined '
          'GLOBAL, #create_memzone, overlapping/adjacent zones), programs switching zones, zone-relative and bare '
          'origins, an included file, fills ending at / one past a zone end')
BOUNDS = {'zone bounds': 'symbolic within the address space +-4 (UNIT) / 0..0x300 (PIPE)', 'fill lengths': '0..6',
          'bitvector_width': '24..80'}
ASSUMPTIONS = [               'a cursor may rest one past the zone end as long as no byte is placed there',
               'an uncaught Python exception counts as a rejection (non-zero exit, no image), not as acceptance']

V = lambda n: ('v', n)      # noqa
L = lambda n: ('lbl', n)    # noqa
C = lambda n: ('c', n)      # noqa


class ZoneUnit(Shape):
    kind = 'UNIT'
    max_paths = 500

    @property
    def width(self):
        return self.params['bits'] + 16

    def setup(self, symbolic):
        if symbolic:
            from sx import shims
            shims.install()

    def expected_outcomes(self):
        return ['rejected'] if self.params.get('name') in ('USED', 'GLOBAL') else ['ok', 'rejected']

    def run(self, env):
        from bespokeasm.assembler.memory_zone import MemoryZone
        from bespokeasm.assembler.memory_zone.manager import MemoryZoneManager
        bits = self.params['bits']
        top = (1 << bits) - 1
        what = self.params['what']
        decl = {'init': [('start', -4, top + 4), ('end', -4, top + 4)],
                'setter': [('start', 0, top + 4), ('end', 0, top), ('value', -4, top + 8)],
                'create': [('gs', 0, top), ('ge', 0, top), ('start', 0, top + 4), ('end', 0, top + 4)],
                'manager': [('gs', 0, top), ('ge', 0, top + 4), ('origin', 0, top + 8), ('start', -4, top + 4),
                            ('end', 0, top + 4)],
                'create-default': [('start', 0, top + 4), ('end', 0, top + 4)]}[what]
        v = {n: env.sym(n, lo, hi) for n, lo, hi in decl}
        if what in ('setter',):
            env.assume(env.z('start') <= env.z('end'))
        if what == 'create':
            env.assume(env.z('gs') <= env.z('ge'))
        try:
            if what == 'init':
                z = MemoryZone(bits, v['start'], v['end'], 'Z')
                return ('ok', [z.start, z.end, z.current_address])
            if what == 'setter':
                z = MemoryZone(bits, v['start'], v['end'], 'Z')
                z.current_address = v['value']
                return ('ok', [z.current_address])
            if what == 'create':
                m = MemoryZoneManager(bits, v['gs'], [{'name': 'GLOBAL', 'start': v['gs'], 'end': v['ge']},
                                                      {'name': 'USED', 'start': v['gs'], 'end': v['ge']}])
                z = m.create_zone(bits, v['start'], v['end'], self.params.get('name', 'NEW'))
                return ('ok', [z.start, z.end, z.current_address])
            if what == 'create-default':
                # no GLOBAL among the predefined zones: the default GLOBAL still owns its name
                m = MemoryZoneManager(bits, 0, [])
                z = m.create_zone(bits, v['start'], v['end'], self.params.get('name', 'NEW'))
                return ('ok', [z.start, z.end, z.current_address])
            if what == 'manager':
                m = MemoryZoneManager(bits, v['origin'],
                                      [{'name': 'GLOBAL', 'start': v['gs'], 'end': v['ge']},
                                       {'name': 'Z', 'start': v['start'], 'end': v['end']}])
                return ('ok', [m.global_zone.start, m.global_zone.end, m.global_zone.current_address,
                               m.zone('Z').start, m.zone('Z').end])
        except (ValueError, KeyError) as e:
            return ('rejected', type(e).__name__)
        raise E.HarnessError(what)

    def judge(self, env, out):
        bits = self.params['bits']
        top = E.bvval((1 << bits) - 1)
        what = self.params['what']
        z = env.z
        valid = lambda s, e: z3.And(E.bvval(0) <= s, s <= e, e <= top)  # noqa
        if what == 'init':
            ok = valid(z('start'), z('end'))
            exp = [z('start'), z('end'), z('start')]
        elif what == 'setter':
            ok = z3.And(z('start') <= z('value'), z('value') <= z('end') + E.bvval(1))
            exp = [z('value')]
        elif what == 'create-default':
            ok = valid(z('start'), z('end')) if self.params.get('name') != 'GLOBAL' else z3.BoolVal(False)
            exp = [z('start'), z('end'), z('start')]
        elif what == 'create':
            ok = z3.And(valid(z('start'), z('end')), z('gs') <= z('start'), z('end') <= z('ge'))
            if self.params.get('name') == 'USED':
                ok = z3.BoolVal(False)
            exp = [z('start'), z('end'), z('start')]
        else:
            ok = z3.And(valid(z('gs'), z('ge')), valid(z('start'), z('end')),
                        z('gs') <= z('origin'), z('origin') <= z('ge') + E.bvval(1))
            exp = [z('gs'), z('ge'), z('origin'), z('start'), z('end')]
        if out[0] == 'ok':
            obl = [(f'C05.{what}.accepted_implies_stated_validity', ok)]
            obl.append((f'C05.{what}.state_after', z3.And(*[zv(a) == b for a, b in zip(out[1], exp)])))
            return obl
        return [(f'C05.{what}.rejected_implies_stated_invalidity', z3.Not(ok))]

    def summarize(self, out, model):
        return {'kind': out[0], 'state': [under(model, x) for x in out[1]] if out[0] == 'ok' else out[1]}


class OneLineShape(LayoutShape):
    """a zone directive and a statement written on one line: `prog` states the program line by line (the reference), `files`
    the same statements with the directive and what follows it joined; only the image is judged"""

    def expected_outcomes(self):
        return ['ok']

    def judge(self, env, out):
        if out.kind != 'ok':
            return [('C05.one_line_form_is_assembled', z3.BoolVal(False))]
        ref = self.ref(env)
        return [('C05.statement_after_a_zone_directive_on_its_line_is_placed_in_that_zone',
                 ref.image_ok(out.image, zv(0), None, zv(0)))]


def mk(sid, prog, consts=None, files=None, expect=('ok', 'rejected'), props=('C05', 'C14'), width=24, **kw):
    p = {'main.asm': prog}
    p.update(files or {})
    start = kw.pop('start', 0)
    end = kw.pop('end', None)
    binary = kw.pop('binary', False)
    return LayoutShape(sid, prog=p, cfgargs=dict(consts=consts or {}, **kw), props=list(props), binary=binary,
                       width=width, expect=list(expect), start=start, end=end)


def pipe_shapes(tier):
    S = []
    N = {'n': (0, 6)}
    ZS = Sym('zs', 0x20, 0x40)
    ZE = Sym('ze', 0x20, 0x60)
    # a: a predefined zone with symbolic bounds, filled with 4 bytes + n
    S.append(mk('zone-fill-to-end', [('instr', 'nop', None), ('memzone', 'Z'), ('data', '.byte', [C(1), C(2), C(3), C(4)]),
                                     ('fill', V('n'), C(0xEE)), ('label', 'after')], N, zones={'Z': (ZS, ZE)}))
    # b: two stretches of the same zone with GLOBAL code in between
    S.append(mk('zone-two-stretches', [
        ('memzone', 'Z'), ('label', 'z1'), ('data', '.2byte', [L('z2')]), ('fill', V('n'), C(1)), ('memzone', 'GLOBAL'),
        ('label', 'g'), ('instr', 'ld16', L('z1')), ('memzone', 'Z'), ('label', 'z2'), ('data', '.2byte', [L('g')])],
        N, zones={'Z': (ZS, ZE)}))
    # c: zone-relative origin, bare origin reverts to GLOBAL
    S.append(mk('zone-relative-origin', [
        ('org', V('k'), 'Z'), ('label', 'a'), ('data', '.byte', [C(7), C(8)]), ('org', V('g'), None), ('label', 'b'),
        ('instr', 'nop', None), ('memzone', 'Z'), ('label', 'c'), ('data', '.2byte', [L('a'), L('b'), L('c')])],
        {'k': (-2, 0x50), 'g': (0, 0x300)}, zones={'Z': (ZS, ZE)}))
    # d: included file starts in GLOBAL, includer resumes its zone
    S.append(mk('include-resumes-zone', [
        ('memzone', 'Z'), ('data', '.byte', [C(1)]), ('include', 'inc.asm'), ('label', 'back'),
        ('data', '.2byte', [L('back'), L('inc_l')])], {},
        files={'inc.asm': [('label', 'inc_l'), ('data', '.byte', [C(9), C(9)]), ('memzone', 'Y'), ('instr', 'nop', None)]},
        zones={'Z': (ZS, ZE), 'Y': (0x100, 0x10f)}, origin=Sym('o0', 0, 0x10)))
    # e: source-declared zones against a redefined GLOBAL with symbolic bounds
    for nm, (a, b) in {'inside': (0x30, 0x3f), 'inverted': (0x40, 0x3f), 'wide': (0x30, 0x1ffff)}.items():
        S.append(mk(f'create-memzone:{nm}', [
            ('create_memzone', 'NZ', a, b), ('memzone', 'NZ'), ('data', '.byte', [C(5)])], {},
            expect=('ok', 'rejected') if nm == 'inside' else ('rejected',),
            global_zone=(Sym('gs', 0, 0x40), Sym('ge', 0x20, 0x80)), origin=Sym('o0', 0, 0x80)))
    # a statement on the line of the zone directive
    prog = [('instr', 'nop', None), ('memzone', 'Z'), ('data', '.byte', [C(1), V('b')]), ('memzone', 'GLOBAL'), ('data', '.byte', [C(2)]),
            ('org', C(4), 'Z'), ('data', '.byte', [C(3)]), ('org', V('g'), None), ('instr', 'ld8', V('b'))]
    text = 'nop\n.memzone Z .byte 1, b\n.memzone GLOBAL .byte 2\n.org 4 "Z" .byte 3\n.org g\nld8 b\n'
    S.append(OneLineShape('one-line:zone-directive-then-statement', prog={'main.asm': prog}, files={'main.asm': text},
                          cfgargs=dict(consts={'b': (0, 255), 'g': (0x40, 0x42)}, zones={'Z': (0x20, 0x2f)}),
                          props=['C05'], binary=True, width=24, start=0))
    # the name GLOBAL is taken whether or not the definition redefines that zone
    S.append(mk('create-memzone:named-GLOBAL-default', [
        ('create_memzone', 'GLOBAL', 0x20, 0x2f), ('instr', 'nop', None)], {}, expect=('rejected',), origin=Sym('o0', 0, 0x10)))
    S.append(mk('create-memzone:named-GLOBAL-redefined', [
        ('create_memzone', 'GLOBAL', 0x30, 0x3f), ('instr', 'nop', None)], {}, expect=('rejected',),
        global_zone=(Sym('gs', 0, 0x20), Sym('ge', 0x40, 0x80)), origin=Sym('o0', 0x20, 0x40)))
    S.append(mk('create-memzone:named-GLOBAL-beside-predefined', [
        ('create_memzone', 'GLOBAL', 0x30, 0x3f), ('memzone', 'Z'), ('instr', 'nop', None)], {}, expect=('rejected',),
        zones={'Z': (ZS, ZE)}))
    S.append(mk('create-memzone:duplicate', [
        ('create_memzone', 'NZ', 0x30, 0x3f), ('create_memzone', 'NZ', 0x40, 0x4f), ('instr', 'nop', None)], {},
        expect=('rejected',)))
    S.append(mk('create-memzone:reuses-predefined-name', [
        ('create_memzone', 'Z', 0x30, 0x3f), ('instr', 'nop', None)], {}, zones={'Z': (0x10, 0x1f)}, expect=('rejected',)))
    # f: redefined GLOBAL, origin and code length symbolic
    S.append(mk('redefined-global', [('label', 'a'), ('data', '.byte', [C(1), C(2)]), ('zero', V('n')), ('label', 'e')], N,
                global_zone=(Sym('gs', 0, 0x40), Sym('ge', 0x20, 0x80)), origin=Sym('o0', 0, 0x90)))
    # f2: an origin given relative to GLOBAL itself (named explicitly) is offset from the start of the redefined GLOBAL
    S.append(mk('global-relative-origin', [
        ('org', V('k'), 'GLOBAL'), ('label', 'a'), ('data', '.byte', [C(7), C(8)]), ('org', V('g'), None), ('label', 'b'),
        ('instr', 'nop', None), ('org', C(2), 'GLOBAL'), ('label', 'c'), ('data', '.2byte', [L('a'), L('b'), L('c')])],
        {'k': (-2, 0x50), 'g': (0, 0x90)}, global_zone=(Sym('gs', 0, 0x40), Sym('ge', 0x30, 0x80)), origin=Sym('o0', 0, 0x80)))
    S.append(mk('global-relative-origin-default-global', [
        ('org', V('k'), 'GLOBAL'), ('label', 'a'), ('data', '.byte', [C(7)]), ('memzone', 'GLOBAL'), ('data', '.2byte', [L('a')])],
        {'k': (0, 0x50)}, expect=('ok',)))
    # f3: a zone directive in an unselected conditional branch must not switch the zone
    S.append(mk('zone-directive-in-unselected-branch', [
        ('memzone', 'Z'), ('data', '.byte', [C(1)]), ('if', 0, [('memzone', 'Y')], [('data', '.byte', [C(2)])]), ('label', 'a'),
        ('data', '.2byte', [L('a')]), ('if', 1, [('instr', 'nop', None)], [('org', C(0), None)]), ('label', 'b'),
        ('data', '.2byte', [L('b')]), ('if', ('def', 'USE_Y'), [('memzone', 'Y')], [('memzone', 'Z')]), ('fill', V('n'), C(3)), ('label', 'c')],
        N, zones={'Z': (ZS, ZE), 'Y': (0x100, 0x10f)}))
    S.append(mk('zone-directive-in-selected-branch', [
        ('memzone', 'Z'), ('data', '.byte', [C(1)]), ('if', 1, [('memzone', 'Y')], [('memzone', 'Z')]), ('label', 'a'),
        ('data', '.2byte', [L('a')]), ('if', ('ndef', 'NOPE'), [('org', C(4), 'Z')], None), ('label', 'b'), ('data', '.2byte', [L('b')])],
        {}, zones={'Z': (ZS, ZE), 'Y': (0x100, 0x10f)}))
    # g: predefined zone and a redefined GLOBAL
    S.append(mk('predefined-zone-vs-global', [('memzone', 'Z'), ('data', '.byte', [C(1), C(2)])], {},
                global_zone=(0x10, 0x3f), zones={'Z': (Sym('zs', 0, 0x50), Sym('ze', 0, 0x60))}, origin=0x10))
    for pos, nm in ((1, 'global-listed-last'), (1, 'global-listed-between')):
        zs = {'Z': (Sym('zs', 0, 0x50), Sym('ze', 0, 0x60))}
        if nm.endswith('between'):
            zs['Y'] = (0x20, 0x2f)
        S.append(mk(f'predefined-zone-vs-global:{nm}', [('memzone', 'Z'), ('data', '.byte', [C(1), C(2)])], {},
                    global_zone=(0x10, 0x3f), zones=zs, origin=0x10, global_position=pos))
    # h: adjacent and overlapping zones
    S.append(mk('adjacent-zones', [
        ('memzone', 'ZA'), ('fill', V('n'), C(1)), ('memzone', 'ZB'), ('data', '.byte', [C(2), C(3)])], N,
        zones={'ZA': (0x20, 0x23), 'ZB': (Sym('zbs', 0x20, 0x28), 0x2f)}, props=('C05', 'C04')))
    # i: align inside a zone may push past its end
    S.append(mk('align-in-zone', [('memzone', 'Z'), ('instr', 'nop', None), ('align', C(16)), ('data', '.byte', [C(1)])],
                {}, zones={'Z': (ZS, ZE)}))
    # j: .zerountil up to / beyond the zone end
    S.append(mk('zerountil-in-zone', [('memzone', 'Z'), ('instr', 'nop', None), ('zerountil', V('t')), ('label', 'e')],
                {'t': (0x20, 0x70)}, zones={'Z': (0x30, ZE)}))
    return S


def random_zone_programs(tier, seed):
    import random
    rnd = random.Random(500 + seed)
    S = []
    for i in range(16 if tier == 'quick' else 1500):
        zones = {'ZA': (Sym('zas', 0x100, 0x140), Sym('zae', 0x120, 0x180)), 'ZB': (0x200, Sym('zbe', 0x200, 0x240))}
        prog = []
        nl = 0
        for _ in range(rnd.randint(4, 9)):
            r = rnd.random()
            if r < 0.22:
                prog.append(('memzone', rnd.choice(['ZA', 'ZB', 'GLOBAL'])))
            elif r < 0.32:
                z = rnd.choice(['ZA', 'ZB', None])
                prog.append(('org', V('k') if z else ('+', V('g'), C(0x300)), z))
            elif r < 0.5:
                prog.append(('fill', V('n'), C(0xEE)))
            elif r < 0.75:
                nl += 1
                prog.append(('label', f'l{nl}'))
                prog.append(('data', rnd.choice(['.byte', '.2byte']), [L(f'l{rnd.randint(1, nl)}')]))
            elif r < 0.85:
                prog.append(('instr', rnd.choice(['nop', 'nn2', 'nib']), None))
            else:
                prog.append(('align', C(rnd.choice([4, 16]))))
        S.append(mk(f'rnd:{seed}:{i}', prog, {'n': (0, 6), 'k': (-1, 0x50), 'g': (0, 0x80)}, zones=zones, expect=()))
    return S


def shapes(tier, seed):
    S = []
    for bits in (4, 8, 12, 16, 32, 64):
        for what in ('init', 'setter', 'create', 'manager'):
            S.append(ZoneUnit(f'unit:{what}:{bits}', bits=bits, what=what))
        S.append(ZoneUnit(f'unit:create-dup:{bits}', bits=bits, what='create', name='USED'))
        S.append(ZoneUnit(f'unit:create-named-GLOBAL:{bits}', bits=bits, what='create-default', name='GLOBAL'))
        S.append(ZoneUnit(f'unit:create-beside-default-GLOBAL:{bits}', bits=bits, what='create-default'))
    return S + pipe_shapes(tier) + random_zone_programs(tier, seed)
