"""C12 - configured operand value constraints are enforced (field-range facet, UNIT)."""
from . import unit_encode

ID = 'C12'
BUDGET_S = {'quick': 150, 'thorough': 3600}
SHAPE_WALL_S = {'quick': 60, 'thorough': 300}
FAMILY = ('UNIT: field widths 1..64 with symbolic values (accepted <=> in signed-or-unsigned range); PIPE: generated ISA '
          'definitions with min/max (numeric_bytecode, relative_address incl. offset from instruction end), numeric '
          'enumerations, memory-zone membership (address, valid_address), sliced addresses sharing the MSBs of the '
          'instruction address; operand value, statement address, min/max, zone bounds and dictionary values symbolic')
BOUNDS = {'field_value': '-(2^(size+1)) <= v <= 2^(size+2)', 'bitvector_width': 96, 'fields_per_layout': '1..4',
          'sizes': '1..64'}
ASSUMPTIONS = ['bit order inside a byte: most significant bit first (documented for big endian; for little endian '
               'the bytes are emitted in increasing significance and the partial byte last)']
from sx.shims import STUBS  # noqa


def shapes(tier, seed):
    from .isa_templates import instr_shapes, random_instr_shapes
    from .instr import InstrShape
    # the same constraints on statements inside a muted region (they emit nothing, but are not exempt)
    muted = []
    for s in instr_shapes(tier, seed, ['C12'], only=('t5', 't6', 't1:arg12', 't4:0', 't7:1')):
        if s.params.get('context') or s.params.get('prelude'):
            continue            # a context rewrites the source text: the muted form is built from the plain shapes only
        if 'rejected' in s.params.get('expect', []) and (tier != 'quick' or len(muted) < 14):
            muted.append(InstrShape('muted:' + s.sid, muted=True, **{k: v for k, v in s.params.items() if k not in ('files',)}))
    own = instr_shapes(tier, seed, ['C12'], only=('t5', 't6', 't4', 't7', 't8', 't1:arg12', 't1:arg5', 't1:arg8'))
    for s in own:
        if s.sid.startswith('t5'):
            # numeric enumerations: a JSON definition can only spell the keys as strings
            s.params['also_json'] = True
    return muted + own + random_instr_shapes(tier, seed + 7, ['C12']) + unit_encode.layouts(tier, seed, ['C12'])
