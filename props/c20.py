"""C20 - generated editor extensions are well-formed and mirror the ISA vocabulary (STR: z3 regular expressions over
the patterns the real generators emit; the identifier being classified is symbolic)."""
from __future__ import annotations

import json
import os
import plistlib
import re
import shutil
import tempfile
import zipfile

import z3

from sx import engine as E
from sx.harness import Shape
from .instr import isa, code, arg

ID = 'C20'
BUDGET_S = {'quick': 170, 'thorough': 3600}
SHAPE_WALL_S = {'quick': 120, 'thorough': 400}
SERIAL = False
STUBS = ['none: the generators run unmodified on concrete ISA files; only the emitted patterns are translated to z3 regular expressions']
FAMILY = ('real VSCode and Sublime generators run on a family of vocabularies (mnemonics that are prefixes of one another, '
          'contain a period, differ in case; with/without macros, registers, predefined names); every emitted classification '
          'pattern (instructions, macros, registers, predefined names, directives, data types, preprocessor keywords, expression '
          'functions) is translated to a z3 regular expression; the identifier being classified is a symbolic string')
BOUNDS = {'identifier': 'any string over [A-Za-z0-9_] plus the vocabulary items themselves, length <= 12, between blanks',
          'regex subset': r'literals, |, groups, (?i), \b, ., escapes, one-character look-behind; anything else = inconclusive',
          'vocabularies': 'catalogue (enumerated)'}
ASSUMPTIONS = ['Python `re` stands in for the editors\' Oniguruma engine when a counterexample is replayed (same semantics on the subset)',
               'a token is classified when the pattern matches it as a whole between blanks (prefix match where the pattern has no '
               'closing word boundary)']

WORD = z3.Union(z3.Range('a', 'z'), z3.Range('A', 'Z'), z3.Range('0', '9'), z3.Re('_'))


# ---- restricted regex -> z3 -------------------------------------------------------------------------------------
class Unsupported(Exception):
    pass


class RX:
    """parser for the subset; produces (z3 regex of the *consuming* part, leading boundary kind, trailing \\b flag)"""

    def __init__(self, text):
        self.t = text
        self.i = 0
        self.ci = False

    def peek(self, n=1):
        return self.t[self.i:self.i + n]

    def parse(self):
        if self.t.startswith('(?i)'):
            self.ci = True
            self.i = 4
        r = self.alt()
        if self.i != len(self.t):
            raise Unsupported(f'trailing text at {self.i}: {self.t[self.i:]}')
        return r

    def alt(self):
        items = [self.seq()]
        while self.peek() == '|':
            self.i += 1
            items.append(self.seq())
        return ('alt', items) if len(items) > 1 else items[0]

    def seq(self):
        items = []
        while self.i < len(self.t) and self.peek() not in ('|', ')'):
            items.append(self.atom())
        return ('seq', items)

    def atom(self):
        c = self.peek()
        if c == '(':
            if self.peek(3) == '(?:':
                self.i += 3
                r = self.alt()
            elif self.peek(7) == r'(?<!\w)':
                self.i += 7
                return ('lb_notword',)
            elif self.peek(7) == r'(?<=\#)':
                self.i += 7
                return ('lb_hash',)
            elif self.peek(2) == '(?':
                raise Unsupported(f'group construct {self.peek(4)}')
            else:
                self.i += 1
                r = self.alt()
            if self.peek() != ')':
                raise Unsupported('unbalanced group')
            self.i += 1
            return self.quant(r)
        if c == '\\':
            e = self.peek(2)[1:]
            self.i += 2
            if e == 'b':
                return ('wb',)
            if e in '.#;,-_':
                return self.quant(('lit', e))
            if e == 'w':
                return self.quant(('word',))
            raise Unsupported(f'escape \\{e}')
        if c == '.':
            self.i += 1
            return self.quant(('any',))
        if c in '[]{}*+?^$':
            raise Unsupported(f'metacharacter {c}')
        self.i += 1
        return self.quant(('lit', c))

    def quant(self, r):
        if self.peek() in ('*', '+', '?', '{'):
            raise Unsupported(f'quantifier {self.peek()}')
        return r


def to_z3(ast, ci):
    """consuming regex; boundary markers must already be stripped"""
    k = ast[0]
    if k == 'lit':
        ch = ast[1]
        if ci and ch.isalpha():
            return z3.Union(z3.Re(ch.lower()), z3.Re(ch.upper()))
        return z3.Re(ch)
    if k == 'any':
        return z3.Range(' ', '~')
    if k == 'word':
        return WORD
    if k == 'seq':
        items = [to_z3(x, ci) for x in ast[1]]
        if not items:
            return z3.Re('')
        return z3.Concat(*items) if len(items) > 1 else items[0]
    if k == 'alt':
        items = [to_z3(x, ci) for x in ast[1]]
        return z3.Union(*items)
    raise Unsupported(k)


def token_language(pattern):
    """-> (z3 regex L, prefix): a token t between blanks is (at least partly) claimed by the pattern iff t in L
    (L already includes the free tail when the pattern lacks a closing word boundary)."""
    p = RX(pattern)
    ast = p.parse()
    alts = []

    def strip(a, lead, trail):
        """peel boundary markers from a sequence; returns list of (core ast, lead-anchored, trail-anchored)"""
        if a[0] == 'alt':
            out = []
            for x in a[1]:
                out += strip(x, lead, trail)
            return out
        if a[0] != 'seq':
            return [(a, lead, trail)]
        items = list(a[1])
        while items and items[0][0] in ('wb', 'lb_notword', 'lb_hash'):
            lead = True
            items.pop(0)
        while items and items[-1][0] == 'wb':
            trail = True
            items.pop()
        if len(items) == 1 and items[0][0] in ('alt', 'seq'):
            return strip(items[0], lead, trail)
        if any(x[0] in ('wb', 'lb_notword', 'lb_hash') for x in items):
            raise Unsupported('boundary marker inside a sequence')
        return [(('seq', items), lead, trail)]
    for core, lead, trail in strip(ast, False, False):
        r = to_z3(core, p.ci)
        if not lead:
            # nothing anchors the start of this alternative: it also matches inside a longer token
            r = z3.Concat(z3.Star(z3.Range('!', '~')), r)
        if not trail:
            r = z3.Concat(r, z3.Star(z3.Range('!', '~')))
        alts.append(r)
    return z3.Union(*alts) if len(alts) > 1 else alts[0]


def ci_literal(s):
    parts = [z3.Union(z3.Re(c.lower()), z3.Re(c.upper())) if c.isalpha() else z3.Re(c) for c in s]
    return z3.Concat(*parts) if len(parts) > 1 else parts[0]


# ---- rule order inside a grammar context (first rule that matches at a position wins) -----------------------------------
REG_SCOPE, INS_SCOPE, MAC_SCOPE = 'variable.language.register', 'variable.function.instruction', 'variable.function.macro'


def sublime_contexts(syn):
    """-> {context name: [(kind, pattern, scope)]} for the operand context pushed by the instruction / macro rule and for
    `main`, includes flattened in order"""
    ctx = syn['contexts']

    def flat(items, depth=0):
        out = []
        if depth > 6:
            return out
        for it in items:
            if 'include' in it:
                out += flat(ctx.get(it['include'], []), depth + 1)
            elif 'match' in it:
                out.append(('pop' if it.get('pop') else 'match', it['match'], it.get('scope', '')))
        return out
    res = {'sublime.main': flat(ctx['main'])}
    for d in ctx['instructions']:
        if d.get('scope') == INS_SCOPE and isinstance(d.get('push'), list):
            res['sublime.instruction-operands'] = flat(d['push'])
        elif d.get('scope') == MAC_SCOPE and isinstance(d.get('push'), list):
            res['sublime.macro-operands'] = flat(d['push'])
    return res


def tm_contexts(g):
    rep = g['repository']

    def entry(rule, name=''):
        if 'include' in rule:
            nm = rule['include'].lstrip('#')
            return entry(rep.get(nm, {}), nm)
        if 'match' in rule:
            return [('match', rule['match'], rule.get('name', name))]
        if 'begin' in rule:
            sc = rule.get('beginCaptures', {}).get('0', {}).get('name') or rule.get('name', name)
            return [('match', rule['begin'], sc)]
        out = []
        for r in rule.get('patterns', []):
            out += entry(r, name)
        return out

    def inside(rule):
        out = [('pop', rule['end'], '')] if 'end' in rule else []
        for r in rule.get('patterns', []):
            out += entry(r)
        return out
    res = {'vscode.main': [e for r in g['patterns'] for e in entry(r)]}
    if 'instructions' in rep:
        res['vscode.instruction-operands'] = inside(rep['instructions'])
    if 'macros' in rep:
        res['vscode.macro-operands'] = inside(rep['macros'])
    return res


def real_match_at_start(pattern, token, at_bol):
    c = re.compile(pattern)
    return (c.match(token, 0) if at_bol else c.match(' ' + token, 1)) is not None


# ---- the shape ------------------------------------------------------------------------------------------------------
class VocabShape(Shape):
    kind = 'STR'
    width = 32
    max_paths = 10

    def setup(self, symbolic):
        self.tmp = tempfile.mkdtemp(prefix='sxc20_')

    def teardown(self):
        shutil.rmtree(getattr(self, 'tmp', ''), ignore_errors=True)

    def expected_outcomes(self):
        return ['ok']

    def config(self):
        p = self.params
        regs = p.get('registers', [])
        cfg = isa(general={'registers': regs, 'identifier': {'name': p.get('lang', 'sxlang'), 'version': '1.2.3', 'extension': 'sx'}})
        cfg['general']['registers'] = regs
        cfg['operand_sets'] = {'imm': {'operand_values': {'n': {'type': 'numeric', 'argument': arg(8, True)}}}}
        cfg['instructions'] = {m: {'bytecode': {'value': i, 'size': 8}} for i, m in enumerate(p['mnemonics'])}
        if p.get('macros'):
            cfg['macros'] = {m: [{'instructions': [p['mnemonics'][0]]}] for m in p['macros']}
        cfg['predefined'] = {}
        if p.get('predefined'):
            cfg['predefined']['constants'] = [{'name': n, 'value': 1} for n in p['predefined']]
        return cfg

    def run(self, env):
        import yaml
        from bespokeasm.configgen.vscode import VSCodeConfigGenerator
        from bespokeasm.configgen.sublime import SublimeConfigGenerator
        from bespokeasm.assembler.label_scope import LabelScope
        LabelScope._global_scope = None
        cfgp = os.path.join(self.tmp, 'isa.yaml')
        with open(cfgp, 'w') as f:
            yaml.safe_dump(self.config(), f, sort_keys=False)
        problems = []
        pats = {}
        contexts = {}
        try:
            vs = os.path.join(self.tmp, 'vscode')
            os.makedirs(vs, exist_ok=True)
            VSCodeConfigGenerator(cfgp, self.params.get('verbose', 0), vs, None, None, None).generate()
            ext = os.path.join(vs, 'extensions', self.params.get('lang', 'sxlang'))
            for root, _, files in os.walk(ext):
                for fn in files:
                    fp = os.path.join(root, fn)
                    txt = open(fp, encoding='utf-8').read()
                    if re.search(r'##[A-Z_]+##', txt):
                        problems.append(f'vscode/{fn}: unsubstituted placeholder {re.search(r"##[A-Z_]+##", txt).group(0)}')
                    try:
                        if fn.endswith('.json'):
                            json.loads(txt)
                        elif fn.endswith('.tmTheme'):
                            plistlib.loads(txt.encode('utf-8'))
                    except Exception as e:  # noqa
                        problems.append(f'vscode/{fn}: not well-formed: {type(e).__name__}')
            g = json.load(open(os.path.join(ext, 'syntaxes', 'tmGrammar.json')))
            rep = g['repository']
            pats['vscode.instructions'] = rep['instructions']['begin']
            if 'macros' in rep:
                pats['vscode.macros'] = rep['macros']['begin']
            if 'registers' in rep:
                pats['vscode.registers'] = rep['registers']['match']
            if 'compiler_labels' in rep:
                pats['vscode.predefined'] = rep['compiler_labels']['match']
            for item in rep['directives']['patterns']:
                if item['name'] == 'meta.directive':
                    pats['vscode.directives'] = item['begin']
                elif item['name'] == 'storage.type':
                    pats['vscode.datatypes'] = item['match']
                elif item['name'] == 'meta.preprocessor':
                    for q in item['patterns']:
                        if q.get('name') == 'keyword.control.preprocessor':
                            pats['vscode.preprocessor'] = q['match']
            for item in rep['operators']['patterns']:
                if item['name'] == 'keyword.operator.word':
                    pats['vscode.functions'] = item['match']
            contexts.update(tm_contexts(g))
        except SystemExit as e:
            problems.append(f'vscode generator exited: {e.code}')
        except Exception as e:  # noqa
            problems.append(f'vscode generator crashed: {type(e).__name__}: {e}')
        LabelScope._global_scope = None
        try:
            sb = os.path.join(self.tmp, 'sublime')
            os.makedirs(sb, exist_ok=True)
            SublimeConfigGenerator(cfgp, self.params.get('verbose', 0), sb, None, None, None).generate()
            pk = os.path.join(sb, self.params.get('lang', 'sxlang') + '.sublime-package')
            with zipfile.ZipFile(pk) as z:
                if z.testzip() is not None:
                    problems.append('sublime package: corrupt zip member')
                for n in z.namelist():
                    txt = z.read(n).decode('utf-8')
                    if re.search(r'##[A-Z_]+##', txt):
                        problems.append(f'sublime/{n}: unsubstituted placeholder {re.search(r"##[A-Z_]+##", txt).group(0)}')
                    try:
                        if n.endswith('.sublime-syntax'):
                            syn = yaml.safe_load(txt)
                        elif n.endswith(('.sublime-color-scheme', '.sublime-keymap')):
                            json.loads(txt)
                        elif n.endswith(('.sublime-snippet', '.tmPreferences')):
                            import xml.dom.minidom
                            xml.dom.minidom.parseString(txt)
                    except Exception as e:  # noqa
                        problems.append(f'sublime/{n}: not well-formed: {type(e).__name__}')
            ctx = syn['contexts']
            for d in ctx['instructions']:
                if d.get('scope') == 'variable.function.instruction':
                    pats['sublime.instructions'] = d['match']
                elif d.get('scope') == 'variable.function.macro':
                    pats['sublime.macros'] = d['match']
            if 'registers' in ctx:
                pats['sublime.registers'] = ctx['registers'][0]['match']
            if 'compiler_labels' in ctx:
                pats['sublime.predefined'] = ctx['compiler_labels'][0]['match']
            pats['sublime.directives'] = ctx['compiler_directives'][0]['match']
            pats['sublime.datatypes'] = ctx['data_types_directives'][0]['match']
            for rule in ctx['preprocessor_directives'][0]['push']:
                if 'match' in rule and 'include' in rule['match'] and 'define' in rule['match']:
                    pats['sublime.preprocessor'] = rule['match']
            for rule in ctx['numerical_expressions']:
                if rule.get('scope') == 'keyword.operator.word':
                    pats['sublime.functions'] = rule['match']
            contexts.update(sublime_contexts(syn))
        except SystemExit as e:
            problems.append(f'sublime generator exited: {e.code}')
        except Exception as e:  # noqa
            problems.append(f'sublime generator crashed: {type(e).__name__}: {e}')
        pats['__contexts__'] = contexts
        return ('ok', pats, problems)

    def vocab(self, cls):
        from bespokeasm.assembler import keywords as K
        p = self.params
        return {
            'instructions': ([m.lower() for m in p['mnemonics']], '', True),
            'macros': ([m.lower() for m in p.get('macros', [])], '', True),
            'registers': (list(p.get('registers', [])), '', True),
            'predefined': (list(p.get('predefined', [])), '', False),
            'directives': (sorted(K.COMPILER_DIRECTIVES_SET), '.', False),
            'datatypes': (sorted(K.BYTECODE_DIRECTIVES_SET), '.', False),
            'preprocessor': (sorted(K.PREPROCESSOR_DIRECTIVES_SET), '', False),
            'functions': (sorted(K.EXPRESSION_FUNCTIONS_SET), '', False),
        }[cls]

    def judge(self, env, out):
        _, pats, problems = out
        obl = [('C20.generated_files_are_well_formed_and_free_of_placeholders', z3.BoolVal(not problems))]
        expected = ['instructions', 'directives', 'datatypes', 'preprocessor', 'functions']
        if self.params.get('macros'):
            expected.append('macros')
        if self.params.get('registers'):
            expected.append('registers')
        if self.params.get('predefined'):
            expected.append('predefined')
        for ed in ('vscode', 'sublime'):
            for cls in expected:
                key = f'{ed}.{cls}'
                if key not in pats:
                    obl.append((f'C20.{key}.pattern_is_emitted', z3.BoolVal(False)))
                    continue
                words, prefix, ci = self.vocab(cls)
                pattern = pats[key]
                flags = re.IGNORECASE if pattern.startswith('(?i)') else 0
                # every vocabulary item is classified (decided on the real pattern text with a regex engine)
                missing = []
                for v in words:
                    m = re.search(pattern, f' {prefix if cls != "preprocessor" else "#"}{v} ')
                    if cls == 'preprocessor':
                        ok = m is not None and m.group(0) == v
                    else:
                        ok = m is not None and m.group(0).lower() == (prefix + v).lower()
                    if not ok:
                        missing.append(v)
                obl.append((f'C20.{key}.every_vocabulary_item_is_classified', z3.BoolVal(not missing)))
                # nothing outside the vocabulary is classified: solver over the identifier
                wname = f'w_{ed}_{cls}'
                if env.symbolic:
                    try:
                        L = token_language(pattern)
                    except Unsupported as u:
                        raise E.Inconclusive(f'{key}: pattern outside the translated subset ({u}): {pattern[:80]}')
                    w = env.string(wname)
                    tok = z3.Concat(z3.Re(prefix), z3.Plus(WORD)) if prefix else z3.Plus(WORD)
                    voc = [ci_literal(prefix + v) if ci or flags else z3.Re(prefix + v) for v in words]
                    tokens = z3.Union(tok, *voc) if voc else tok
                    invoc = z3.InRe(w, z3.Union(*voc)) if len(voc) > 1 else (z3.InRe(w, voc[0]) if voc else z3.BoolVal(False))
                    claim = z3.Implies(z3.And(z3.InRe(w, tokens), z3.Length(w) <= 12, z3.InRe(w, L)), invoc)
                    # translator validation: the vocabulary itself must be in the translated language
                    for v in words:
                        if not z3.is_true(z3.simplify(z3.InRe(z3.StringVal(prefix + v), L))):
                            s = z3.Solver()
                            if s.check(z3.Not(z3.InRe(z3.StringVal(prefix + v), L))) == z3.sat and v not in missing:
                                raise E.HarnessError(f'{key}: translated language loses vocabulary item {v}')
                    obl.append((f'C20.{key}.nothing_outside_the_vocabulary_is_classified', claim))
                else:
                    w = env.string(wname)
                    lead = '#' if cls == 'preprocessor' else ''
                    m = re.search(pattern, f' {lead}{w} ') if w else None
                    inv = (w.lower() if (ci or flags) else w) in [(prefix + v).lower() if (ci or flags) else prefix + v for v in words]
                    obl.append((f'C20.{key}.nothing_outside_the_vocabulary_is_classified', z3.BoolVal(m is None or inv)))
        obl += self.judge_rule_order(env, pats.get('__contexts__', {}))
        return obl

    def judge_rule_order(self, env, contexts):
        """a register in operand position / a mnemonic or macro name at the start of a statement is claimed by its own
        rule before any earlier rule of the same context (rule order is precedence in both grammar formats)"""
        from . import rx
        obl = []
        p = self.params
        wanted = []
        if p.get('registers'):
            for c in ('instruction-operands',) + (('macro-operands',) if p.get('macros') else ()):
                wanted.append((c, REG_SCOPE, 'registers', False))
        wanted.append(('main', INS_SCOPE, 'instructions', True))
        if p.get('macros'):
            wanted.append(('main', MAC_SCOPE, 'macros', True))
        # an operation name met in operand position (second statement on the line) ends the operand context: the
        # rule that closes the context is the first to match it
        for c in ('instruction-operands',) + (('macro-operands',) if p.get('macros') else ()):
            wanted.append((c, 'POP', 'instructions', False))
            if p.get('macros'):
                wanted.append((c, 'POP', 'macros', False))
        for ed in ('vscode', 'sublime'):
            for cname, scope, cls, bol in wanted:
                key = f'{ed}.{cname}'
                tag = f'C20.{key}.{cls}_are_claimed_by_their_own_rule_first'
                if scope == 'POP':
                    tag = f'C20.{key}.{cls}_end_the_operand_context'
                rules = contexts.get(key)
                if rules is None:
                    obl.append((f'C20.{key}.context_is_emitted', z3.BoolVal(False)))
                    continue
                idx = next((i for i, r in enumerate(rules) if (r[0] == 'pop' if scope == 'POP' else r[2] == scope)), None)
                if idx is None:
                    obl.append((tag, z3.BoolVal(False)))
                    continue
                words, prefix, ci = self.vocab(cls)
                wname = f'o_{ed}_{cname.replace("-", "_")}_{cls}' + ('_pop' if scope == 'POP' else '')
                w = env.string(wname)
                if env.symbolic:
                    langs = []
                    for kind, pat, _ in rules[:idx + 1]:
                        try:
                            L = rx.match_language(pat, at_bol=bol)
                        except rx.Unsupported as u:
                            raise E.Inconclusive(f'{key}: rule pattern outside the translated subset ({u}): {pat[:80]}')
                        # translator validation on the vocabulary and its neighbours, against the regex engine
                        for t in self._probe_tokens(words):
                            real = real_match_at_start(pat, t, bol)
                            mod = z3.simplify(z3.InRe(z3.StringVal(t), L))
                            if not (z3.is_true(mod) or z3.is_false(mod)):
                                sv = z3.Solver()
                                mod = z3.BoolVal(sv.check(z3.InRe(z3.StringVal(t), L)) == z3.sat)
                            if z3.is_true(mod) != real:
                                raise E.HarnessError(f'{key}: translation of {pat!r} disagrees with the regex engine on {t!r}')
                        langs.append(L)
                    invoc = z3.InRe(w, z3.Union(*[ci_literal(v) for v in words])) if len(words) > 1 else z3.InRe(w, ci_literal(words[0]))
                    own = z3.InRe(w, langs[idx])
                    earlier = [z3.InRe(w, L) for L in langs[:idx]]
                    obl.append((tag, z3.Implies(invoc, z3.And(own, z3.Not(z3.Or(*earlier)) if earlier else z3.BoolVal(True)))))
                else:
                    if not w or w.lower() not in [v.lower() for v in words]:
                        obl.append((tag, z3.BoolVal(True)))
                        continue
                    winner = next((i for i, r in enumerate(rules) if real_match_at_start(r[1], w, bol)), None)
                    obl.append((tag, z3.BoolVal(winner == idx)))
        return obl

    def known_namespace(self):
        # classes of identifiers usable in the `when` of a recorded finding
        mnems = [m.lower() for m in self.params['mnemonics']]

        def dotted_extension_of_a_mnemonic(w):
            tail = z3.Plus(z3.Range('!', '~'))
            return z3.Or(*[z3.InRe(w, z3.Concat(ci_literal(m + '.'), tail)) for m in mnems])
        return {'dotted_extension_of_a_mnemonic': dotted_extension_of_a_mnemonic}

    @staticmethod
    def _probe_tokens(words):
        out = []
        for v in words:
            out += [v, v.upper(), v + 'x', v + '.x', 'x' + v, v + '1', v[:-1] if len(v) > 1 else v + '_']
        return out + ['0x1f', '12', '1fH', '$ff', '%01', 'b1', 'x_1', '.org', "'a'", '(', '[', '[[', 'a:', 'EQU', '==', '+', ';', '#define']

    def summarize(self, out, model):
        return {'kind': out[0], 'patterns': {k: v for k, v in out[1].items() if not k.startswith('__')}, 'problems': out[2]}

    def describe(self):
        return {'shape': self.sid, **{k: v for k, v in self.params.items()}}


VOCABS = {
    'plain': dict(mnemonics=['mov', 'add', 'jmp'], registers=['a', 'b', 'sp'], macros=['push2'], predefined=['RESET', 'vec_1']),
    'prefixes': dict(mnemonics=['ld', 'ldi', 'ldir', 'l'], registers=['r', 'r1', 'r10'], macros=['ldx', 'ldirx'], predefined=['K', 'KK']),
    'no-macros': dict(mnemonics=['inc', 'dec'], registers=['x', 'y']),
    'no-registers': dict(mnemonics=['push', 'pop'], registers=[], macros=['pp']),
    'no-predefined-no-macros-no-registers': dict(mnemonics=['halt'], registers=[]),
    'dotted': dict(mnemonics=['ld.b', 'ld.w', 'ld', 'st.b'], registers=['a'], macros=['cp.w']),
    'mixed-case': dict(mnemonics=['MOV', 'Add', 'jMp'], registers=['A', 'ix'], macros=['Push2'], predefined=['Reset']),
    'underscores-digits': dict(mnemonics=['op_1', 'op_12', '_x'], registers=['r_0', 'r_00'], predefined=['_start', 'v2']),
    'numeric-like-registers': dict(mnemonics=['mov', 'ld'], registers=['a', 'b0', 'b1', 'b10', 'ah', 'hl'], macros=['ldm']),
    'macro-extends-mnemonic': dict(mnemonics=['ld', 'st'], registers=['a'], macros=['ldx', 'st2', 'xld']),
    'macro-dotted-extension-of-mnemonic': dict(mnemonics=['nop', 'ld'], registers=['a'], macros=['nop.all', 'st.w']),
    # language names that need escaping somewhere in the generated files
    'name-with-double-hyphen': dict(mnemonics=['mov'], registers=['a'], lang='demo--cpu'),
    'name-with-ampersand': dict(mnemonics=['mov'], registers=['a'], macros=['m2'], lang='r&d'),
    'name-with-angle-bracket': dict(mnemonics=['mov'], registers=['a'], lang='a<b'),
    'name-with-quote': dict(mnemonics=['mov'], registers=['a'], lang='say"hi'),
    'name-with-apostrophe-and-dot': dict(mnemonics=['mov'], registers=['a'], lang="it's.v2"),
    # what is generated does not depend on how much is logged
    'plain-verbose-3': dict(mnemonics=['mov', 'add', 'jmp'], registers=['a', 'b', 'sp'], macros=['push2'], predefined=['RESET'], verbose=3),
    'prefixes-verbose-1': dict(mnemonics=['ld', 'ldi', 'l'], registers=['r', 'r1'], macros=['ldx'], verbose=1),
    'single-letter': dict(mnemonics=['a', 'b'], registers=['c'], macros=['d'], predefined=['e']),
}


def random_vocab(rnd):
    stems = ['ld', 'st', 'mov', 'add', 'jmp', 'br', 'x', 'cp', 'in', 'out', 'nop', 'sh']
    used = set()

    def name(dotted=True):
        for _ in range(50):
            s = rnd.choice(stems)
            r = rnd.random()
            if r < 0.25:
                s += rnd.choice(['i', 'r', 'x', '16', '_l'])
            elif r < 0.4 and dotted:
                s += '.' + rnd.choice(['b', 'w', 'l', 'all'])
            if rnd.random() < 0.15:
                s = s.upper() if rnd.random() < 0.5 else s.capitalize()
            if s.lower() not in used and s.lower() not in ('org', 'fill', 'byte', 'zero'):
                used.add(s.lower())
                return s
        return 'q%d' % len(used)
    v = dict(mnemonics=[name() for _ in range(rnd.randint(1, 6))])
    if rnd.random() < 0.7:
        v['registers'] = [name(dotted=False).lower() for _ in range(rnd.randint(1, 4))]
    else:
        v['registers'] = []
    if rnd.random() < 0.6:
        v['macros'] = [name() for _ in range(rnd.randint(1, 3))]
    if rnd.random() < 0.6:
        v['predefined'] = [name(dotted=False) for _ in range(rnd.randint(1, 3))]
    return v


def shapes(tier, seed):
    import random
    S = [VocabShape(f'vocab:{k}', **v) for k, v in VOCABS.items()]
    rnd = random.Random(2000 + seed)
    for i in range(12 if tier == 'quick' else 2000):
        S.append(VocabShape(f'rnd:{seed}:{i}', **random_vocab(rnd)))
    return S
