"""C08 - conditional assembly selects exactly the lines of the taken branches (PIPE, symbolic condition operands)."""
from __future__ import annotations

import random

import z3

from sx import engine as E
from sx.harness import zv
from sx.pipe import Sym
from sx.shims import STUBS  # noqa
from .pipe_common import PipeShape, base_config

ID = 'C08'
BUDGET_S = {'quick': 170, 'thorough': 3600}
SHAPE_WALL_S = {'quick': 100, 'thorough': 600}
FAMILY = ('PIPE: directive sequences over #if/#elif (six comparison operators and the implied "!= 0") / #ifdef / #ifndef / '
          '#else / #endif / #define / #mute / #unmute / #include, nesting depth <= 3, marker `.byte k`, label and '
          'constant lines between them; condition operands c1..c3 symbolic (hence every combination of truth values and '
          'every boundary of < <= > >=); hand-written sequences for each historical defect plus seeded random ones; '
          'ill-formed sequences (#else/#elif/#endif without opener) must be rejected')
BOUNDS = {'condition operands': '-1000..1000', 'sequence length': '<= 9 (quick) / <= 12 (thorough)', 'nesting depth': '<= 3',
          'symbol names': '2 (GG, HH)', 'bitvector_width': 32}
ASSUMPTIONS = ['lines inside unselected branches are well-formed (an unparsable excluded line is not judged)',
               'each symbol is defined at most once per sequence', 'every opened block is closed',
               'concrete replay passes the operand values as command-line symbols (-D c1=<value>)']

OPS = ['==', '!=', '>', '>=', '<', '<=']


# statements: ('if', a, op, b) ('ift', a) ('elif', a, op, b) ('elift', a) ('else',) ('endif',) ('ifdef', N) ('ifndef', N)
#             ('define', N) ('mute',) ('unmute',) ('mark', k) ('label', name) ('const', name, k) ('include', file)
# operands:   ('s', 'c1') symbolic | ('n', int) literal
#             ('d', NAME, k) the text `NAME+k`, NAME given a value by ('definev', NAME, value)
def rop(x):
    if x[0] == 'd':
        return f'{x[1]}+{x[2]}'
    return x[1] if x[0] == 's' else (str(x[1]) if x[1] >= 0 else f'(0-{-x[1]})')


def render(stmts):
    out = []
    for st in stmts:
        k = st[0]
        if k == 'if':
            out.append(f'#if {rop(st[1])} {st[2]} {rop(st[3])}')
        elif k == 'ift':
            out.append(f'#if {rop(st[1])}')
        elif k == 'elif':
            out.append(f'#elif {rop(st[1])} {st[2]} {rop(st[3])}')
        elif k == 'elift':
            out.append(f'#elif {rop(st[1])}')
        elif k in ('else', 'endif', 'mute', 'unmute'):
            out.append('#' + k)
        elif k in ('ifdef', 'ifndef', 'define'):
            out.append(f'#{k} {st[1]}')
        elif k == 'definev':
            out.append(f'#define {st[1]} {st[2]}')
        elif k == 'raw':
            out.append(st[1])
        elif k == 'cmz':
            out.append(f'#create_memzone {st[1]} {st[2]} {st[3]}')
        elif k == 'usez':
            out.append(f'.memzone {st[1]}')
            out.append('.memzone GLOBAL')
        elif k == 'mark':
            out.append(f'.byte {st[1]}')
        elif k == 'label':
            out.append(f'{st[1]}:')
        elif k == 'const':
            out.append(f'{st[1]} = {st[2]}')
        elif k == 'markc':
            out.append(f'.byte {st[1]}')
        elif k == 'include':
            out.append(f'#include "{st[1]}"')
        else:
            raise ValueError(st)
    return '\n'.join(out) + '\n'


class RefCond:
    """Reference chain semantics written from the statement: every fact is a z3 Bool over the operands."""

    def __init__(self, env, files, main, initially_defined=()):
        self.env = env
        self.files = files
        self.defined = {}
        for n in initially_defined:
            self.defined[n] = z3.BoolVal(True)
        self.mute = E.bvval(0)
        self.lines = []          # (file, line_no, kind, active Bool, muted Bool, stmt)
        self.consts = {}         # name -> [(value, active Bool)] in definition order
        self.zones = {}          # zone name -> [active Bool of each #create_memzone line]
        self.must_reject = []    # z3 Bools: a selected reference without a selected definition / two selected definitions
        self.illformed = False
        self.stray = []          # conditions under which an included file with a stray #else/#elif/#endif is read
        self.symval = {}         # symbol -> value, for symbols given a value by an unconditional #define
        self.unknowns = 0
        self.top_active = z3.BoolVal(True)
        self._walk(main, self.top_active)

    def _stray(self, file_active):
        """#else / #elif / #endif with no opener *in its own file*: rejected whenever that file is read at all"""
        if file_active is self.top_active:
            self.illformed = True           # in the main file: the whole program is ill-formed
        else:
            self.stray.append(file_active)
            self.must_reject.append(file_active)

    def val(self, x):
        if x[0] == 'd':
            return E.bvval(self.symval[x[1]] + x[2])
        return self.env.z(x[1]) if x[0] == 's' else E.bvval(x[1])

    def truth(self, st):
        if any(isinstance(x, tuple) and x[0] == 'd' and x[1] not in self.symval for x in st[1:]):
            # the operand mentions a symbol that has no value yet: the statement does not say what such a condition
            # yields (the family keeps the bodies of these chains empty)
            self.unknowns += 1
            return z3.Bool(f'unspecified{self.unknowns}')
        if st[0] in ('ift', 'elift'):
            return self.val(st[1]) != E.bvval(0)
        a, op, b = self.val(st[1]), st[2], self.val(st[3])
        return {'==': a == b, '!=': a != b, '>': a > b, '>=': a >= b, '<': a < b, '<=': a <= b}[op]

    def _walk(self, fname, file_active):
        frames = []      # [enclosing, taken, active]
        cur = lambda: frames[-1][2] if frames else file_active  # noqa
        for ln, st in enumerate(self.files[fname], start=1):
            k = st[0]
            if k in ('if', 'ift', 'ifdef', 'ifndef'):
                enc = cur()
                if k == 'ifdef':
                    t = self.defined.get(st[1], z3.BoolVal(False))
                elif k == 'ifndef':
                    t = z3.Not(self.defined.get(st[1], z3.BoolVal(False)))
                else:
                    t = self.truth(st)
                sel = z3.And(enc, t)
                frames.append([enc, sel, sel])
            elif k in ('elif', 'elift', 'else'):
                if not frames:
                    self._stray(file_active)
                    return
                f = frames[-1]
                t = z3.BoolVal(True) if k == 'else' else self.truth(st)
                sel = z3.And(f[0], z3.Not(f[1]), t)
                f[1] = z3.Or(f[1], sel)
                f[2] = sel
            elif k == 'endif':
                if not frames:
                    self._stray(file_active)
                    return
                frames.pop()
            elif k in ('define', 'definev'):
                if k == 'definev':
                    assert z3.is_true(z3.simplify(cur())), 'valued definitions are unconditional in this family'
                    self.symval[st[1]] = st[2]
                self.lines.append((fname, ln, 'define', cur(), None, st))
                self.defined[st[1]] = z3.Or(self.defined.get(st[1], z3.BoolVal(False)), cur())
            elif k == 'raw':
                self.must_reject.append(cur())      # text that is no statement: fatal iff its branch is selected
            elif k == 'cmz':
                # a zone definition counts iff its line is selected; two selected definitions of one name are an error
                for other in self.zones.get(st[1], []):
                    self.must_reject.append(z3.And(other, cur()))
                self.zones.setdefault(st[1], []).append(cur())
            elif k == 'usez':
                defs = self.zones.get(st[1], [])
                self.must_reject.append(z3.And(cur(), z3.Not(z3.Or(*defs)) if defs else z3.BoolVal(True)))
            elif k == 'mute':
                self.mute = z3.If(cur(), self.mute + E.bvval(1), self.mute)
            elif k == 'unmute':
                self.mute = z3.If(z3.And(cur(), self.mute > 0), self.mute - E.bvval(1), self.mute)
            elif k == 'include':
                self._walk(st[1], cur())
            else:
                if k == 'const':
                    for _, other in self.consts.get(st[1], []):
                        self.must_reject.append(z3.And(other, cur()))        # the same name defined twice among selected lines
                    self.consts.setdefault(st[1], []).append((st[2], cur()))
                if k == 'markc':
                    # constants are usable before their definition line, so every definition of the file counts
                    self.lines.append((fname, ln, k, cur(), self.mute > 0, st))
                    continue
                self.lines.append((fname, ln, k, cur(), self.mute > 0, st))


class CondShape(PipeShape):
    width = 32

    def __init__(self, sid, **params):
        super().__init__(sid, **params)
        stm = params['stmts']
        files = {n: render(s) for n, s in stm.items()}
        names = sorted({x[1] for s in stm.values() for st in s for x in st[1:] if isinstance(x, tuple) and x[0] == 's'})
        cfg = base_config()
        pre = [(n, Sym(n, -1000, 1000)) for n in names]
        if params.get('isa_symbols'):
            cfg.setdefault('predefined', {})['symbols'] = [{'name': n} for n in params['isa_symbols']]
        self.params.setdefault('config', cfg)
        self.params.setdefault('files', files)
        self.params.setdefault('predefined', pre + list(params.get('cli_symbols', [])))

    def expected_outcomes(self):
        return self.params.get('expect', ['ok'])

    def judge(self, env, out):
        p = self.params
        ref = RefCond(env, p['stmts'], 'main.asm', list(p.get('isa_symbols', [])) + list(p.get('cli_symbols', [])))
        if ref.illformed:
            return [('C08.else_elif_endif_without_opener_is_rejected', z3.BoolVal(out.kind != 'ok'))]
        # references to constants: value of the one selected definition
        refs = []
        for (f, ln, kind, active, muted, st) in ref.lines:
            if kind == 'markc':
                defs = ref.consts.get(st[1], [])
                ref.must_reject.append(z3.And(active, z3.Not(z3.Or(*[a for _, a in defs])) if defs else z3.BoolVal(True)))
                val = E.bvval(0)
                for v, a in reversed(defs):
                    val = z3.If(a, E.bvval(v), val)
                refs.append(((f, ln), active, val))
        must_reject = z3.Or(*ref.must_reject) if ref.must_reject else z3.BoolVal(False)
        if out.kind != 'ok':
            return [('C08.well_formed_sequence_is_assembled', must_reject)]
        by_pos = {}
        for li in out.lines:
            by_pos.setdefault((li.file, li.line_num), []).append(li)
        sel, mut, expected = [], [], []
        for (f, ln, kind, active, muted, st) in ref.lines:
            cands = by_pos.get((f, ln), [])
            if len(cands) == 0:
                sel.append(z3.Not(active))      # e.g. a line of a file whose #include was not selected
                continue
            if len(cands) != 1:
                return [(f'C08.line_{f}_{ln}_yields_one_line_object', z3.BoolVal(False))]
            li = cands[0]
            if kind == 'define':
                # a definition takes effect iff selected: observable as the directive object the factory built
                took_effect = li.cls == 'DefineSymbolLine'
                sel.append(active == z3.BoolVal(took_effect))
                continue
            sel.append(active == z3.BoolVal(bool(li.compilable)))
            if li.compilable:
                mut.append(muted == z3.BoolVal(bool(li.is_muted)))
            if kind == 'mark' and li.compilable:
                expected.append(0 if li.is_muted else st[1])
            if kind == 'markc' and li.compilable:
                expected.append(None)          # value judged separately (depends on which definition is selected)      # a muted line keeps its place but emits nothing
        A = lambda xs: z3.And(*xs) if xs else z3.BoolVal(True)  # noqa
        cvals = []
        for pos, active, val in refs:
            li = by_pos.get(pos, [None])[0]
            if li is not None and li.compilable and li.bytes:
                cvals.append(z3.Implies(active, E.Z(li.bytes[0]) & E.bvval(0xff) == val))
        while expected and expected[-1] == 0:
            expected.pop()
        if any(x is None for x in expected):
            expected = None                                        # the image ends at the last emitted byte
        img = None if out.image is None else [E.Z(b) for b in out.image]
        if expected is None:
            img_ok = True
        elif not expected:
            img_ok = out.image is None or len(out.image) == 0
        else:
            img_ok = img is not None and len(img) == len(expected) and all(
                z3.is_true(z3.simplify(b == E.bvval(k))) for b, k in zip(img, expected))
        return [
            ('C08.else_elif_endif_without_opener_in_an_included_file_is_rejected', z3.Not(z3.Or(*ref.stray)) if ref.stray else z3.BoolVal(True)),
            ('C08.line_contributes_iff_every_enclosing_block_selected_its_branch', A(sel)),
            ('C08.mute_changes_take_effect_iff_selected', A(mut)),
            ('C08.constants_are_defined_by_selected_lines_only', z3.And(z3.Not(must_reject), A(cvals))),
            ('C08.image_holds_exactly_the_markers_of_selected_unmuted_lines', z3.BoolVal(bool(img_ok))),
        ]

    def describe(self):
        return {'shape': self.sid, 'files': self.params['files'], 'cli_symbols': [repr(x) for x in self.params['predefined']]}


S1, S2, S3 = ('s', 'c1'), ('s', 'c2'), ('s', 'c3')
N = lambda k: ('n', k)  # noqa
M = lambda k: ('mark', k)  # noqa


def handwritten():
    H = {}
    for i, op in enumerate(OPS):
        H[f'op:{op}'] = [('if', S1, op, S2), M(1), ('else',), M(2), ('endif',), M(3)]
        H[f'op-literal:{op}'] = [('if', S1, op, N(7)), M(1), ('elif', S1, op, N(-7)), M(2), ('endif',)]
    H['implied-nonzero'] = [('ift', S1), M(1), ('elift', S2), M(2), ('else',), M(3), ('endif',)]
    H['nested-in-unselected'] = [('if', S1, '>', N(0)), ('if', S2, '>', N(0)), M(1), ('else',), M(2), ('endif',), M(3),
                                 ('endif',), M(4)]
    H['nested-in-else'] = [('ift', S1), M(1), ('else',), ('ift', S2), M(2), ('elift', S3), M(3), ('endif',), ('endif',)]
    H['depth3'] = [('ift', S1), ('ift', S2), ('ift', S3), M(1), ('else',), M(2), ('endif',), ('else',), M(3), ('endif',),
                   ('endif',), M(9)]
    H['ifndef-define-inside'] = [('ifndef', 'GG'), ('define', 'GG'), M(1), ('else',), M(2), ('endif',), ('ifdef', 'GG'), M(3),
                                 ('endif',)]
    H['define-in-unselected'] = [('ift', S1), ('define', 'GG'), M(1), ('endif',), ('ifdef', 'GG'), M(2), ('else',), M(3),
                                 ('endif',)]
    H['define-in-nested-unselected'] = [('ift', S1), ('ift', S2), ('define', 'HH'), ('endif',), ('endif',),
                                        ('ifndef', 'HH'), M(1), ('endif',), M(2)]
    H['ifdef-elif-else'] = [('ifdef', 'GG'), M(1), ('elif', S1, '==', N(2)), M(2), ('else',), M(3), ('endif',)]
    H['ifdef-defined-earlier'] = [('define', 'GG'), ('ifdef', 'GG'), M(1), ('elift', S1), M(2), ('endif',), ('ifndef', 'GG'),
                                  M(3), ('else',), M(4), ('endif',)]
    H['definition-after-test'] = [('ifdef', 'GG'), M(1), ('else',), M(2), ('endif',), ('define', 'GG'), ('ifdef', 'GG'), M(3),
                                  ('endif',)]
    H['elif-chain-first-true-wins'] = [('if', S1, '>', N(5)), M(1), ('elif', S1, '>', N(3)), M(2), ('elif', S1, '>', N(1)), M(3),
                                       ('else',), M(4), ('endif',)]
    H['mute-in-branches'] = [M(1), ('ift', S1), ('mute',), ('endif',), M(2), ('ift', S2), ('unmute',), ('endif',), M(3),
                             ('unmute',), M(4)]
    H['mute-nested'] = [('mute',), ('ift', S1), ('mute',), ('else',), ('unmute',), ('endif',), M(1), ('unmute',), M(2)]
    H['constant-per-branch'] = [('ift', S1), ('const', 'KK', 17), ('else',), ('const', 'KK', 34), ('endif',), ('markc', 'KK'), M(9)]
    H['constant-only-in-unselected'] = [('if', S1, '>', N(0)), ('const', 'KK', 5), ('endif',), ('if', S1, '>', N(0)), ('markc', 'KK'),
                                        ('endif',), M(9)]
    H['constant-in-nested-unselected'] = [('ift', S1), ('ift', S2), ('const', 'KK', 7), ('endif',), ('endif',), ('const', 'JJ', 9),
                                          ('ift', S1), ('ift', S2), ('markc', 'KK'), ('endif',), ('endif',), ('markc', 'JJ')]
    H['constant-elif-chain'] = [('if', S1, '==', N(1)), ('const', 'KK', 1), ('elif', S1, '==', N(2)), ('const', 'KK', 2), ('else',),
                                ('const', 'KK', 3), ('endif',), ('markc', 'KK')]
    H['constant-used-before-definition-in-branch'] = [('markc', 'KK'), ('ift', S1), ('const', 'KK', 17), ('else',), ('const', 'KK', 34),
                                                      ('endif',)]
    # the same condition text is met before and after the symbol it mentions gets its value: each directive is judged
    # at the moment it is reached
    D1, D0, D5 = ('d', 'LV', 1), ('d', 'LV', 0), ('d', 'LV', 5)
    H['same-text-before-and-after-define'] = [('if', D1, '==', S1), ('endif',), ('ift', D0), ('endif',), ('definev', 'LV', 2),
                                              ('if', D1, '==', S1), M(1), ('elif', D1, '==', S2), M(2), ('else',), M(3), ('endif',),
                                              ('ift', D0), M(4), ('endif',), M(9)]
    H['same-text-before-and-after-define-rhs'] = [('if', S1, '<', D5), ('endif',), ('if', S2, '>=', D5), ('endif',),
                                                  ('definev', 'LV', -3), ('if', S1, '<', D5), M(1), ('endif',),
                                                  ('if', S2, '>=', D5), M(2), ('else',), M(3), ('endif',), M(9)]
    H['valued-symbol-in-elif'] = [('definev', 'LV', 7), ('ift', S1), M(1), ('elif', D0, '>', S2), M(2), ('elif', D1, '!=', S3), M(3),
                                  ('endif',), M(9)]
    # zone definitions: only the ones on selected lines exist
    H['zone-defined-in-either-branch'] = [('ift', S1), ('cmz', 'ZZ', 0x100, 0x10f), ('else',), ('cmz', 'ZZ', 0x200, 0x20f), ('endif',),
                                          M(1), ('usez', 'ZZ'), M(2)]
    H['zone-defined-only-in-one-branch'] = [('ift', S1), ('cmz', 'ZZ', 0x100, 0x10f), ('endif',), M(1), ('ift', S2), ('usez', 'ZZ'),
                                            ('endif',), M(2)]
    H['zone-defined-in-nested-unselected'] = [('ift', S1), ('ift', S2), ('cmz', 'ZY', 0x300, 0x30f), ('endif',), ('endif',), M(1),
                                              ('usez', 'ZY'), M(2)]
    # lines of an unselected branch are not interpreted: they may be anything
    H['garbage-in-unselected-branch'] = [M(1), ('ift', S1), M(2), ('else',), ('raw', 'frobnicate 1, 2 ]'), ('raw', '.memzone NOWHERE'),
                                         ('raw', '.byte'), M(3), ('endif',), M(4)]
    H['labels-and-constants'] = [('ift', S1), ('label', 'la'), ('const', 'KA', 5), M(1), ('else',), ('label', 'lb'),
                                 ('const', 'KB', 6), M(2), ('endif',), ('label', 'lc')]
    return H


def random_seq(rnd, max_len, max_depth=3):
    out = []
    depth = []          # per open block: has_else
    marks = iter(range(1, 200))
    defined = set()
    ops = [S1, S2, S3]
    if rnd.random() < 0.25:
        # a symbol with a value; the texts that mention it are also met (in empty chains) before it is defined
        d1, d0 = ('d', 'LV', 1), ('d', 'LV', 0)
        out += [('if', d1, rnd.choice(OPS), rnd.choice(ops)), ('endif',), ('ift', d0), ('endif',),
                ('definev', 'LV', rnd.choice([0, 1, 2, -1, 5]))]
        ops = ops + [d1, d0]

    def cond(kind):
        r = rnd.random()
        a = rnd.choice(ops)
        if r < 0.35:
            return (kind + 't', a)
        b = rnd.choice(ops + [N(rnd.choice([0, 1, -1, 5]))])
        return (kind, a, rnd.choice(OPS), b)
    while len(out) < max_len - len(depth):
        r = rnd.random()
        if r < 0.22 and len(depth) < max_depth:
            q = rnd.random()
            if q < 0.6:
                out.append(cond('if'))
            else:
                out.append((rnd.choice(['ifdef', 'ifndef']), rnd.choice(['GG', 'HH'])))
            depth.append(False)
        elif r < 0.34 and depth and not depth[-1]:
            out.append(cond('elif'))
        elif r < 0.44 and depth and not depth[-1]:
            out.append(('else',))
            depth[-1] = True
        elif r < 0.58 and depth:
            out.append(('endif',))
            depth.pop()
        elif r < 0.66:
            nm = rnd.choice(['GG', 'HH'])
            if nm not in defined:
                defined.add(nm)
                out.append(('define', nm))
        elif r < 0.72:
            out.append((rnd.choice(['mute', 'unmute']),))
        else:
            out.append(M(next(marks)))
    while depth:
        out.append(('endif',))
        depth.pop()
    out.append(M(next(marks)))
    return out


def shapes(tier, seed):
    S = []
    for name, seq in handwritten().items():
        S.append(CondShape(f'hw:{name}', stmts={'main.asm': seq}))
    S.append(CondShape('hw:include-in-unselected',
                       stmts={'main.asm': [M(1), ('ift', S1), ('include', 'inc.asm'), ('else',), M(2), ('endif',), M(3)],
                              'inc.asm': [M(7), ('ift', S2), M(8), ('endif',)]}))
    # a conditional chain does not continue into an included file: a stray #else / #elif / #endif there is rejected
    for nm, stray in {'else': [('else',), M(8)], 'elif': [('elift', S2), M(8)], 'endif': [('endif',), M(8)]}.items():
        S.append(CondShape(f'hw:include-with-stray-{nm}',
                           stmts={'main.asm': [M(1), ('ift', S1), M(2), ('include', 'inc.asm'), M(3), ('endif',), M(4)],
                                  'inc.asm': [M(7)] + stray}, expect=['ok', 'rejected']))
    S.append(CondShape('hw:include-balanced-inside-block',
                       stmts={'main.asm': [M(1), ('ift', S1), M(2), ('include', 'inc.asm'), M(3), ('else',), M(5), ('endif',), M(4)],
                              'inc.asm': [M(7), ('ift', S2), M(8), ('else',), M(9), ('endif',), M(6)]}))
    S.append(CondShape('hw:isa-and-cli-symbols',
                       stmts={'main.asm': [('ifdef', 'GG'), M(1), ('endif',), ('ifdef', 'HH'), M(2), ('elift', S1), M(3),
                                           ('endif',), ('ifndef', 'KK'), M(4), ('endif',)]},
                       isa_symbols=['GG'], cli_symbols=['HH']))
    for name, seq in {'else-without-if': [M(1), ('else',), M(2), ('endif',)],
                      'endif-without-if': [M(1), ('endif',)],
                      'elif-without-if': [('elift', S1), M(1), ('endif',)],
                      'extra-endif': [('ift', S1), M(1), ('endif',), ('endif',)]}.items():
        S.append(CondShape(f'illformed:{name}', stmts={'main.asm': seq}, expect=[]))
    rnd = random.Random(4242 + seed)
    n = 250 if tier == 'quick' else 8000
    for i in range(n):
        S.append(CondShape(f'rnd:{seed}:{i}', stmts={'main.asm': random_seq(rnd, rnd.randint(5, 9 if tier == 'quick' else 12))},
                           expect=[]))
    return S
