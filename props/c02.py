"""C02 - address assignment and label values are consistent across both passes (PIPE, white-box line table)."""
from __future__ import annotations

import random

from sx.pipe import Sym
from sx.shims import STUBS  # noqa
from .layout import LayoutShape

ID = 'C02'
BUDGET_S = {'quick': 170, 'thorough': 3600}
SHAPE_WALL_S = {'quick': 80, 'thorough': 600}
FAMILY = ('PIPE: programs of <= 12 statements over labels, constants, instructions of 1/1(4-bit)/2/3 bytes, '
          '.byte/.2byte/.4byte, .fill/.zero/.zerountil, .org, .align, .memzone, #mute regions, #if 0/1 blocks, '
          'forward and backward references; hand-written skeletons plus seeded random ones')
BOUNDS = {'origin o0': '0..0x1000', '.org operands': '0..0x3000 (symbolic) ', 'page sizes': '1..64',
          'fill counts': '0..5', 'data values': '|v| < 2^20', 'bitvector_width': 48}
ASSUMPTIONS = ['muted lines are laid out like unmuted ones (they only emit no byte)',
               'layout-affecting expressions (.org/.align/.fill count) reference predefined constants only',
               'white-box: address/byte_size/get_bytes() of each line object are read after assembly']

V = lambda n: ('v', n)      # noqa
L = lambda n: ('lbl', n)    # noqa
C = lambda n: ('c', n)      # noqa
SYMS = {'m': (-3, 2), 'v1': (0, 0x3000), 'v2': (-(1 << 20), 1 << 20), 'p': (1, 64), 'n': (0, 5), 't': (-3, 8)}


def mk(sid, prog, consts=('v1', 'v2'), origin=Sym('o0', 0, 0x1000), binary=False, assume=(), expect=('ok',), width=48,
       **cfg):
    cfgargs = dict(origin=origin, consts={k: SYMS[k] for k in consts}, **cfg)
    return LayoutShape(sid, prog={'main.asm': prog}, cfgargs=cfgargs, props=['C02'], binary=binary,
                       assume=list(assume), expect=list(expect), width=width)


def handwritten():
    S = []
    S.append(mk('hw:mixed-sizes', [
        ('label', 'start'), ('instr', 'nop', None), ('instr', 'ld16', L('end')), ('instr', 'ld8', ('lsb', L('start'))),
        ('instr', 'nib', None), ('instr', 'nn2', None), ('data', '.2byte', [L('start'), L('end')]), ('label', 'mid'),
        ('data', '.byte', [('lsb', L('mid'))]), ('label', 'end')]))
    S.append(mk('hw:align-sym', [
        ('instr', 'nop', None), ('label', 'a'), ('align', V('p')), ('label', 'b'), ('data', '.2byte', [L('a'), L('b')]),
        ('align', V('p')), ('label', 'c'), ('instr', 'ld16', L('c'))], consts=('p',), width=24))
    S.append(mk('hw:align-default-page', [
        ('instr', 'nib', None), ('align', None), ('label', 'b'), ('data', '.2byte', [L('b')]), ('align', None),
        ('label', 'c'), ('data', '.byte', [('lsb', L('c'))])], consts=(), page_size=Sym('pg', 1, 32)))
    S.append(mk('hw:org-sym', [
        ('label', 'a'), ('instr', 'ld16', L('far')), ('org', V('v1'), None), ('label', 'far'),
        ('data', '.2byte', [L('a'), L('far')]), ('instr', 'nop', None), ('label', 'e')],
        expect=('ok', 'rejected')))
    S.append(mk('hw:org-back-and-forth', [
        ('data', '.byte', [C(1), C(2)]), ('org', ('+', V('v1'), C(0x2000)), None), ('label', 'x'), ('instr', 'nop', None),
        ('org', C(0x1800), None), ('label', 'y'), ('data', '.2byte', [L('x'), L('y')])], consts=('v1',)))
    S.append(mk('hw:fill-zero', [
        ('label', 'a'), ('fill', V('n'), V('v2')), ('label', 'b'), ('zero', V('n')), ('label', 'c'),
        ('data', '.2byte', [L('a'), L('b'), L('c')]), ('fill', C(0), C(7)), ('label', 'd'), ('instr', 'ld16', L('d'))],
        consts=('n', 'v2')))
    S.append(mk('hw:zerountil', [
        ('instr', 'nop', None), ('zerountil', ('+', C(0x100), V('t'))), ('label', 'after'),
        ('data', '.2byte', [L('after')])], consts=('t',), origin=0x100, ))
    # a string under a multi-byte data directive: what is emitted is what was reserved
    for d in ('.2byte', '.4byte', '.8byte', '.byte'):
        for en in ('big', 'little'):
            S.append(mk(f'hw:string-under{d}:{en}', [
                ('label', 'a'), ('instr', 'nop', None), ('strdata', d, 'AB'), ('org', ('+', V('v1'), C(0x2000)), None), ('label', 'b'),
                ('strdata', d, 'x'), ('org', ('+', V('v1'), C(0x2100)), None), ('data', '.2byte', [L('a'), L('b')])],
                consts=('v1',), endian=en, width=96 if d == '.8byte' else 48))
    # a count that may be negative: either refused, or nothing moves backwards
    S.append(mk('hw:fill-count-may-be-negative', [
        ('data', '.byte', [C(1), C(2), C(3), C(4)]), ('org', ('+', V('v1'), C(0x2000)), None), ('label', 'a'), ('fill', V('m'), C(7)),
        ('label', 'b'), ('data', '.2byte', [L('a'), L('b')])], consts=('m', 'v1'), expect=('ok', 'rejected')))
    S.append(mk('hw:zero-count-may-be-negative', [
        ('data', '.byte', [C(1), C(2), C(3), C(4)]), ('org', ('+', V('v1'), C(0x2000)), None), ('label', 'a'),
        ('zero', ('-', V('m'), C(1))), ('label', 'b'), ('instr', 'ld16', L('b'))], consts=('m', 'v1'), expect=('ok', 'rejected')))
    # names that the expression lexer reads as numeric literals cannot be labels or constants
    for k, name in enumerate(('b1', 'b101', 'each', 'BEACH', 'FACEH', 'B0', 'ah')):
        S.append(mk(f'hw:label-spelled-like-a-number:{name}', [
            ('instr', 'nop', None), ('instr', 'nop', None), ('label', name), ('data', '.2byte', [L(name)]), ('instr', 'ld16', L(name))],
            consts=(), expect=('rejected',)))
        S.append(mk(f'hw:constant-spelled-like-a-number:{name}', [
            ('instr', 'nop', None), ('const', name, C(0x77)), ('data', '.2byte', [L(name)])], consts=(), expect=('rejected',)))
    S.append(mk('hw:muted-region', [
        ('label', 'a'), ('instr', 'nop', None), ('mute',), ('data', '.2byte', [L('b')]), ('label', 'm'), ('instr', 'nop', None),
        ('unmute',), ('label', 'b'), ('data', '.2byte', [L('m'), L('a')])], consts=()))
    S.append(mk('hw:cond-excluded', [
        ('label', 'a'), ('if', 0, [('data', '.4byte', [C(1)]), ('label', 'ghost')], [('instr', 'nop', None)]),
        ('if', 1, [('data', '.2byte', [L('z')])], [('data', '.8byte', [C(2)])]), ('label', 'z'),
        ('data', '.byte', [('lsb', L('z'))])], consts=()))
    # directives that sit in an unselected branch do not intervene: no zone switch, no origin, no alignment, no fill
    S.append(mk('hw:cond-excluded-directives', [
        ('memzone', 'ZA'), ('label', 'a'), ('data', '.byte', [C(1)]),
        ('if', 1, [('memzone', 'ZA')], [('memzone', 'ZB')]), ('label', 'b'), ('data', '.2byte', [L('a'), L('b')]),
        ('if', 0, [('org', C(8), 'ZB')], [('instr', 'nop', None)]), ('label', 'c'), ('data', '.2byte', [L('c')]),
        ('if', 0, [('align', C(16)), ('fill', C(3), C(9)), ('zero', C(2))], None), ('label', 'd'), ('instr', 'ld16', L('d')),
        ('if', ('def', 'NOPE'), [('memzone', 'GLOBAL')], None), ('label', 'e'), ('data', '.2byte', [L('e')]),
        ('if', 0, [('org', V('v1'), None)], [('memzone', 'ZB')]), ('label', 'f'), ('data', '.2byte', [L('f'), L('d')])],
        consts=('v1',), zones={'ZA': (Sym('zas', 0x2000, 0x20ff), Sym('zae', 0x2100, 0x2fff)), 'ZB': (0x4000, 0x40ff)}))
    S.append(mk('hw:cond-selected-directives', [
        ('label', 'a'), ('instr', 'nop', None), ('if', 1, [('org', ('+', V('v1'), C(0x2000)), None)], [('align', C(64))]),
        ('label', 'b'), ('data', '.2byte', [L('a'), L('b')]), ('if', 0, [('zero', C(5))], [('align', C(8)), ('fill', V('n'), C(1))]),
        ('label', 'c'), ('data', '.2byte', [L('c')])], consts=('v1', 'n')))
    # a GLOBAL zone predefined by the ISA: the first line still sits at the default origin, later returns to GLOBAL
    # continue after its bytes
    S.append(mk('hw:predefined-global', [
        ('label', 'a'), ('instr', 'nop', None), ('data', '.2byte', [L('a'), L('b')]), ('memzone', 'ZB'), ('label', 'z'),
        ('data', '.byte', [C(1)]), ('memzone', 'GLOBAL'), ('label', 'b'), ('instr', 'ld16', L('z'))], consts=(),
        origin=Sym('o0', 0, 0x90), global_zone=(Sym('gs', 0, 0x40), Sym('ge', 0x60, 0x3fff)), zones={'ZB': (0x50, 0x5f)},
        expect=('ok', 'rejected')))
    S.append(mk('hw:predefined-global-org', [
        ('label', 'a'), ('data', '.byte', [C(7)]), ('org', V('v1'), None), ('label', 'b'), ('data', '.2byte', [L('a'), L('b')]),
        ('org', C(3), 'GLOBAL'), ('label', 'c'), ('data', '.2byte', [L('c')])], consts=('v1',),
        origin=Sym('o0', 0, 0x90), global_zone=(Sym('gs', 0, 0x40), Sym('ge', 0x60, 0x3fff)), expect=('ok', 'rejected')))
    # .align counts from address 0 wherever the zone starts
    S.append(mk('hw:align-inside-a-zone', [
        ('memzone', 'ZA'), ('instr', 'nop', None), ('align', C(16)), ('label', 'a'), ('data', '.byte', [C(1)]), ('align', V('p')),
        ('label', 'b'), ('data', '.2byte', [L('a'), L('b')]), ('memzone', 'GLOBAL'), ('instr', 'ld16', L('b'))], consts=('p',), width=24,
        zones={'ZA': (Sym('zas', 0x2000, 0x203f), 0x2fff)}))
    S.append(mk('hw:zones', [
        ('instr', 'nop', None), ('memzone', 'ZA'), ('label', 'za1'), ('data', '.byte', [C(1), C(2)]), ('memzone', 'GLOBAL'),
        ('label', 'g1'), ('instr', 'nop', None), ('memzone', 'ZA'), ('label', 'za2'), ('data', '.2byte', [L('za1'), L('g1')]),
        ('org', C(4), 'ZB'), ('label', 'zb'), ('data', '.2byte', [L('za2'), L('zb')])], consts=(),
        zones={'ZA': (Sym('zas', 0x2000, 0x20ff), Sym('zae', 0x2100, 0x2fff)), 'ZB': (0x4000, 0x40ff)}))
    S.append(mk('hw:const', [
        ('const', 'K', ('+', V('v2'), C(2))), ('label', 'a'), ('data', '.4byte', [L('K'), ('-', L('K'), L('a'))]),
        ('const', 'J', ('*', V('v2'), C(2))), ('data', '.4byte', [L('J')])], consts=('v2',)))
    return S


def fix_zerountil(shapes):
    # hw:zerountil uses a concrete origin 0x100 so that the target can be written relative to it
    for s in shapes:
        if s.sid == 'hw:zerountil':
            s.params['cfgargs']['consts']['o0c'] = 0x100
            s.__init__(s.sid, **{k: v for k, v in s.params.items() if k not in ('config', 'files')})
    return shapes


def random_program(rnd, n_stmts, sym_page=False, rich_branches=True):
    prog, labels, pending_refs = [], [], []
    nlab = 0
    all_labels = [f'l{i}' for i in range(n_stmts)]
    used_syms = set()
    muted = False

    def operand():
        r = rnd.random()
        if r < 0.45:
            return L(rnd.choice(all_labels[:max(1, n_stmts // 2)]))
        if r < 0.65:
            used_syms.add('v2')
            return V('v2')
        if r < 0.8:
            used_syms.add('v2')
            return ('+', V('v2'), C(rnd.choice([1, 3, 256])))
        return C(rnd.choice([0, 1, 255, 256, 65535, -1]))
    want_labels = max(1, n_stmts // 2)
    for i in range(n_stmts - want_labels):
        k = rnd.choices(['instr', 'data', 'fill', 'org', 'align', 'mute', 'if', 'const'],
                        [4, 4, 2, 1.5, 2, 1, 1, 1])[0]
        if k == 'instr':
            m = rnd.choice(['nop', 'nib', 'ld8', 'ld16', 'nn2'])
            a = None if m in ('nop', 'nib', 'nn2') else (('lsb', operand()) if m == 'ld8' else L(rnd.choice(all_labels[:want_labels])))
            prog.append(('instr', m, a))
        elif k == 'data':
            d = rnd.choice(['.byte', '.2byte', '.4byte'])
            prog.append(('data', d, [operand() for _ in range(rnd.randint(1, 3))]))
        elif k == 'fill':
            used_syms.add('n')
            prog.append(rnd.choice([('fill', V('n'), C(0xAA)), ('zero', V('n')), ('zero', C(2))]))
        elif k == 'org':
            used_syms.add('v1')
            prog.append(('org', ('+', V('v1'), C(0x1400 + 0x400 * rnd.randint(0, 3))), None))
        elif k == 'align':
            if sym_page and rnd.random() < 0.3:
                used_syms.add('p')
                prog.append(('align', V('p')))
            else:
                prog.append(('align', rnd.choice([C(4), C(16), C(1), C(3), C(8), C(256)])))
        elif k == 'mute':
            prog.append(('unmute',) if muted else ('mute',))
            muted = not muted
        elif k == 'if':
            def branch():
                r = rnd.random() if rich_branches else 0.0
                if r < 0.4:
                    return [('data', '.2byte', [operand()])]
                if r < 0.55:
                    return [('instr', 'nop', None)]
                if r < 0.7:
                    used_syms.add('v1')
                    return [('org', ('+', V('v1'), C(0x3400 + 0x400 * rnd.randint(0, 1))), None)]
                if r < 0.85:
                    return [('align', rnd.choice([C(4), C(16), C(3)])), ('data', '.byte', [C(5)])]
                return [('zero', C(rnd.randint(0, 3)))]
            prog.append(('if', rnd.choice([0, 1]), branch(), rnd.choice([None, branch()])))
        elif k == 'const':
            used_syms.add('v2')
            name = f'k{i}'
            prog.append(('const', name, ('+', V('v2'), C(i))))
    for j in range(want_labels):
        prog.insert(rnd.randint(0, len(prog)), ('label', all_labels[j]))
    return prog, sorted(used_syms)


def shapes(tier, seed):
    out = handwritten()
    rnd = random.Random(1000 + seed)
    n = 28 if tier == 'quick' else 700
    for i in range(n):
        prog, syms = random_program(rnd, rnd.randint(5, 11), sym_page=(tier != 'quick'))
        out.append(mk(f'rnd:{seed}:{i}', prog, consts=tuple(syms), expect=(), width=40 if 'p' in syms else 48))
    return out
