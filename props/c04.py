"""C04 - two lines never silently occupy the same address (PIPE, symbolic placement)."""
from __future__ import annotations

import itertools

from sx.pipe import Sym
from sx.shims import STUBS  # noqa
from .layout import LayoutShape

ID = 'C04'
BUDGET_S = {'quick': 170, 'thorough': 3600}
SHAPE_WALL_S = {'quick': 150, 'thorough': 900}
FAMILY = ('PIPE: k <= 4 byte-producing lines (instruction, data, fill of symbolic length, predefined block, lines in '
          'zones, zone-relative origins, an included file), each placed by `.org a_i` with a_i symbolic; every source '
          'order of the kinds; the real sort and overlap scan run on proxies so every relative order is a path')
BOUNDS = {'a_i': '0..40', 'lengths': '1..4 fixed, .zero/.fill n with n in 0..3', 'k': '2..4', 'bitvector_width': 24}
ASSUMPTIONS = ['a zero-length line occupies no address and cannot overlap anything',
               'pairs involving a muted line are not judged (the statement speaks of byte-producing lines)']

V = lambda n: ('v', n)      # noqa
C = lambda n: ('c', n)      # noqa
A = {f'a{i}': (0, 40) for i in range(4)}

KINDS = {
    'i3': ('instr', 'ld16', C(0x1234)),
    'i1': ('instr', 'nop', None),
    'd2': ('data', '.2byte', [C(0xBEEF)]),
    'd4': ('data', '.byte', [C(1), C(2), C(3), C(4)]),
    'zn': ('zero', V('n')),
    'fn': ('fill', V('m'), C(0x55)),
    'z0': ('zero', C(0)),
    'm2': ('instr', 'nn2', None),
    # a line in a muted region: it emits nothing and collides with nothing, but lies between the others in address order
    'mu1': [('mute',), ('data', '.byte', [C(7)]), ('unmute',)],
    'mu3': [('mute',), ('data', '.byte', [C(7), C(8), C(9)]), ('unmute',)],
}


def place(a, kind):
    k = KINDS[kind]
    return [('org', V(a), None)] + (list(k) if isinstance(k, list) else [k])


def mk(sid, prog, consts, files=None, binary=False, expect=None, **cfg):
    cs = {k: ((0, 9) if binary else A[k]) for k in consts if k in A}     # image-level shapes: one path per placement
    if 'n' in consts:
        cs['n'] = (0, 3)
    if 'm' in consts:
        cs['m'] = (0, 3)
    p = {'main.asm': prog}
    p.update(files or {})
    nz, mut = 0, False
    for f in p.values():
        for st in f:
            if st[0] in ('mute', 'unmute'):
                mut = st[0] == 'mute'
            elif st[0] in ('instr', 'data', 'fill', 'zero') and st != KINDS['z0'] and not mut:
                nz += 1
    nz += len(cfg.get('data_blocks', ()))
    return LayoutShape(sid, prog=p, cfgargs=dict(consts=cs, **cfg), props=['C04'], binary=binary, width=24,
                       expect=expect or (['ok', 'rejected'] if nz >= 2 else ['ok']))


def shapes(tier, seed):
    S = []
    pairs = [('i3', 'd4'), ('d2', 'i1'), ('zn', 'd4'), ('d4', 'fn'), ('i3', 'z0'), ('zn', 'fn'), ('m2', 'i1'), ('d2', 'm2')]
    for a, b in pairs:
        syms = ['a0', 'a1'] + (['n'] if 'zn' in (a, b) else []) + (['m'] if 'fn' in (a, b) else [])
        S.append(mk(f'pair:{a}-{b}', [('org', V('a0'), None), KINDS[a], ('org', V('a1'), None), KINDS[b]], syms, binary=True))
    triples = [('i3', 'd2', 'd4'), ('d4', 'zn', 'i1'), ('z0', 'd4', 'i3'), ('m2', 'd2', 'i1'), ('d4', 'mu1', 'i3'), ('mu3', 'd4', 'd2')]
    if tier != 'quick':
        triples += [('fn', 'i3', 'zn'), ('d2', 'd2', 'd2'), ('i1', 'z0', 'i1')]
    for t in triples:
        orders = list(itertools.permutations(range(3))) if tier != 'quick' else [(0, 1, 2), (2, 0, 1)]
        for o in orders:
            prog = []
            for idx in o:
                prog += place(f'a{idx}', t[idx])
            syms = ['a0', 'a1', 'a2'] + (['n'] if 'zn' in t else []) + (['m'] if 'fn' in t else [])
            S.append(mk(f'triple:{"-".join(t)}:{"".join(map(str, o))}', prog, syms))
    # first line placed by the default origin, second by .org; second region follows the first without .org
    S.append(mk('origin-vs-org', [KINDS['d4'], ('org', V('a1'), None), KINDS['i3'], KINDS['i1']], ['a1'],
                origin=Sym('o0', 0, 40)))
    # a macro line directly followed (no .org) by another line: the follower must not share the macro's last byte
    S.append(mk('macro-then-sequential', [('org', V('a0'), None), KINDS['m2'], KINDS['i1'], ('org', V('a1'), None), KINDS['d2']], ['a0', 'a1']))
    # predefined data block against a line
    S.append(mk('predef-vs-line', [('org', V('a0'), None), KINDS['d4']], ['a0'],
                data_blocks=[('blk', Sym('ba', 0, 40), 3, 7)]))
    # a predefined block that runs past the top of the address space against lines at the bottom: its bytes must not
    # come back in at address 0
    S.append(mk('predef-at-top-of-address-space', [('org', V('a0'), None), KINDS['d4'], KINDS['i1']], ['a0'],
                address_bits=8, binary=True, expect=['ok'], data_blocks=[('blk', Sym('ba', 0xFB, 0xFF), 4, 0x55)]))
    S.append(mk('predef-vs-two-lines', [('org', V('a0'), None), KINDS['d2'], ('org', V('a1'), None), KINDS['i3']], ['a0', 'a1'],
                binary=True, data_blocks=[('blk', Sym('ba', 0, 9), Sym('bn', 1, 3), 7)]))
    # several predefined blocks: the order in which the definition lists them carries no meaning (either may be lower)
    S.append(mk('two-predefs-any-order', [('org', V('a0'), None), KINDS['d2']], ['a0'],
                data_blocks=[('blk1', Sym('ba', 0, 40), 3, 7), ('blk2', Sym('bb', 0, 40), 2, 9)]))
    S.append(mk('two-predefs-listed-descending', [('org', V('a0'), None), KINDS['i3']], ['a0'], binary=True,
                data_blocks=[('blk1', Sym('ba', 20, 22), 2, 7), ('blk2', Sym('bb', 10, 12), Sym('bn', 1, 2), 9)]))
    S.append(mk('three-predefs-no-lines', [], [], expect=['ok', 'rejected'],
                data_blocks=[('blk1', Sym('ba', 0, 30), 2, 7), ('blk2', Sym('bb', 0, 30), 2, 9), ('blk3', Sym('bc', 0, 30), 1, 5)]))
    # zones: a line in zone Z (zone-relative origin) against a line placed absolutely
    S.append(mk('zone-relative-vs-absolute',
                [('org', V('a0'), 'Z'), KINDS['d2'], ('org', V('a1'), None), KINDS['i3']], ['a0', 'a1'],
                zones={'Z': (8, 60)}))
    # overlapping zones: two zones share addresses, each filled from its start
    S.append(mk('overlapping-zones',
                [('memzone', 'ZA'), KINDS['d4'], ('memzone', 'ZB'), KINDS['i3']], [],
                zones={'ZA': (10, 30), 'ZB': (Sym('zbs', 5, 20), 40)}))
    # lines from two files
    S.append(mk('two-files', [('org', V('a0'), None), KINDS['d4'], ('include', 'inc.asm'), KINDS['i1']], ['a0', 'a1'],
                files={'inc.asm': [('org', V('a1'), None), KINDS['i3']]}))
    # alignment decides whether the regions meet
    S.append(mk('align-into-neighbour',
                [('org', V('a0'), None), KINDS['i1'], ('align', C(8)), KINDS['d2'], ('org', V('a1'), None), KINDS['d4']],
                ['a0', 'a1']))
    if tier != 'quick':
        # image-level triples (one path per placement: addresses 0..9)
        for t in [('i3', 'd2', 'd4'), ('d4', 'zn', 'i1'), ('m2', 'd2', 'i1'), ('fn', 'i3', 'zn')]:
            for o in itertools.permutations(range(3)):
                prog = []
                for idx in o:
                    prog += [('org', V(f'a{idx}'), None), KINDS[t[idx]]]
                syms = ['a0', 'a1', 'a2'] + (['n'] if 'zn' in t else []) + (['m'] if 'fn' in t else [])
                S.append(mk(f'image-triple:{"-".join(t)}:{"".join(map(str, o))}', prog, syms, binary=True))
        quad = ('i3', 'd2', 'zn', 'i1')
        for o in itertools.permutations(range(4)):
            prog = []
            for idx in o:
                prog += [('org', V(f'a{idx}'), None), KINDS[quad[idx]]]
            S.append(mk(f'quad:{"".join(map(str, o))}', prog, ['a0', 'a1', 'a2', 'a3', 'n']))
    return S
