"""Generated ISA definitions covering every operand type, code position, opcode suffix, reverse option, per-field
endianness and alignment.  Every opcode / operand-code / dictionary value is a symbolic leaf, every operand value a
symbolic constant, the statement's address (origin o0) symbolic."""
from __future__ import annotations

import itertools
import random

from sx.pipe import Sym
from .instr import isa, code, arg, V, L, vrange, InstrShape

REG = lambda nm, r, size, pos=None: {'type': 'register', 'register': r, 'bytecode': code(nm, size, pos)}  # noqa


def regs_set(size=3, pos=None, prefix=''):
    return {'operand_values': {'ra': REG(prefix + 'cra', 'ra', size, pos), 'rb': REG(prefix + 'crb', 'rb', size, pos)}}


def templates(tier, seed):
    """yield (sid, config, stmt, consts-with-ranges, expect)"""
    out = []

    def add(sid, cfg, stmt, expect=('ok', 'rejected')):
        out.append((sid, cfg, stmt, list(expect)))

    # ---- T1: register + numeric, every endian/alignment/size combination of the argument ----------------------
    sizes = [(8, True), (8, False), (12, False), (12, True), (16, True), (16, False), (24, True), (5, False), (32, True)]
    if tier != 'quick':
        sizes += [(3, False), (9, True), (17, False), (48, True), (64, True), (7, True), (33, False)]
    for (asz, al), en, ien in itertools.product(sizes, ('big', 'little'), ('big', 'little')):
        if tier == 'quick' and (asz + (en == 'big') + 2 * (ien == 'big')) % 3:
            continue
        cfg = isa(general={'endian': ien},
                  operand_sets={'regs': regs_set(), 'imm': {'operand_values': {'n': {
                      'type': 'numeric', 'bytecode': code('cn', 3), 'argument': arg(asz, al, en)}}}},
                  instructions={'mov': {'bytecode': code('op', 5), 'operands': {'count': 2, 'operand_sets': {'list': ['regs', 'imm']}}}},
                  consts={'v1': vrange(asz)})
        st = {'mnemonic': 'mov', 'text': 'mov rb, v1', 'uses': [{'set': 'regs', 'id': 'rb'}, {'set': 'imm', 'id': 'n', 'val': V('v1')}]}
        add(f't1:arg{asz}{"A" if al else ""}{en[0]}:isa-{ien[0]}', cfg, st)

    # ---- T2: prefix/suffix code positions, opcode suffix, reverse options --------------------------------------
    for pos1, pos2, rev_b, rev_a, sfx in itertools.product(('prefix', 'suffix'), ('prefix', 'suffix'), (False, True), (False, True), (False, True)):
        if tier == 'quick' and (pos1 == 'suffix') + (pos2 == 'prefix') + rev_b + 2 * rev_a + sfx in (1, 4):
            continue
        osets = {'first': {'operand_values': {'n': {'type': 'numeric', 'bytecode': code('c1', 2, pos1), 'argument': arg(8, True)}}},
                 'second': {'operand_values': {'m': {'type': 'numeric', 'bytecode': code('c2', 3, pos2), 'argument': arg(4, False)}}}}
        ops = {'count': 2, 'operand_sets': {'list': ['first', 'second']}}
        if rev_b:
            ops['operand_sets']['reverse_bytecode_order'] = True
        if rev_a:
            ops['operand_sets']['reverse_argument_order'] = True
        bc = code('op', 4)
        if sfx:
            bc['suffix'] = code('sfx', 3)
        cfg = isa(operand_sets=osets, instructions={'ab': {'bytecode': bc, 'operands': ops}},
                  consts={'v1': vrange(8), 'v2': vrange(4)})
        st = {'mnemonic': 'ab', 'text': 'ab v1, v2', 'uses': [{'set': 'first', 'id': 'n', 'val': V('v1')},
                                                             {'set': 'second', 'id': 'm', 'val': V('v2')}]}
        add(f't2:{pos1[0]}{pos2[0]}:revb{int(rev_b)}:reva{int(rev_a)}:sfx{int(sfx)}', cfg, st)

    # ---- T3: opcode endianness / sizes that are not whole bytes / wide fields --------------------------------
    for osz, oen, ssz, ien in ((12, 'little', 4, 'big'), (16, 'little', 4, 'big'), (16, 'big', 4, 'big'), (3, 'big', 4, 'big'),
                               (20, 'little', 4, 'big'), (8, 'little', 4, 'big'),
                               # a suffix wider than a byte follows the instruction's byte order, not the ISA default
                               (8, 'little', 16, 'big'), (8, 'big', 16, 'little'), (12, 'little', 12, 'big'), (16, 'big', 24, 'little')):
        bc = code('op', osz)
        bc['endian'] = oen
        bc['suffix'] = code('sfx', ssz)
        cfg = isa(general={'endian': ien}, operand_sets={'imm': {'operand_values': {'n': {'type': 'numeric', 'argument': arg(16, False, 'little')}}}},
                  instructions={'w': {'bytecode': bc, 'operands': {'count': 1, 'operand_sets': {'list': ['imm']}}}},
                  consts={'v1': vrange(16)})
        add(f't3:opcode{osz}{oen[0]}' + ('' if ssz == 4 else f':sfx{ssz}:isa-{ien[0]}'), cfg, {'mnemonic': 'w', 'text': 'w v1 + 1', 'uses': [
            {'set': 'imm', 'id': 'n', 'val': ('+', V('v1'), ('c', 1))}]})

    # ---- T4: indirect register (with +/- offset), indirect numeric, deferred numeric ---------------------------
    # (the ISA default byte order x offset width: fields without an `endian` key of their own follow the default)
    for ien, osz in (('big', 8), ('little', 16), ('little', 12), ('big', 16)):
        tagx = '' if (ien, osz) == ('big', 8) else f'{ien[0]}{osz}:'
        osets = {'mem': {'operand_values': {
            'ind_sp': {'type': 'indirect_register', 'register': 'sp', 'bytecode': code('c_sp', 3),
                       'offset': {'size': osz, 'byte_align': osz != 12}},
            'ind_ix': {'type': 'indirect_register', 'register': 'ix', 'bytecode': code('c_ix', 3)},
            'ind_n': {'type': 'indirect_numeric', 'bytecode': code('c_in', 3),
                      'argument': arg(16, True, 'little') if not tagx else arg(16, True)},
            'def_n': {'type': 'deferred_numeric', 'bytecode': code('c_dn', 3), 'argument': arg(16, True)},
            'imm': {'type': 'numeric', 'bytecode': code('c_im', 3), 'argument': arg(8, True)},
        }}, 'regs': regs_set()}
        ins = {'ld': {'bytecode': code('op', 5), 'operands': {'count': 2, 'operand_sets': {'list': ['regs', 'mem']}}}}
        T4 = [('ld ra, [sp+v1]', {'id': 'ind_sp', 'val': V('v1')}, vrange(osz)),
              ('ld ra, [sp - v1]', {'id': 'ind_sp', 'val': ('neg', V('v1'))}, vrange(osz)),
              ('ld ra, [sp - v1 + 1]', {'id': 'ind_sp', 'val': ('+', ('neg', V('v1')), ('c', 1))}, vrange(osz)),
              ('ld ra, [sp - 2 - v1]', {'id': 'ind_sp', 'val': ('-', ('c', -2), V('v1'))}, vrange(osz)),
              ('ld ra, [sp + v1 - 3]', {'id': 'ind_sp', 'val': ('-', V('v1'), ('c', 3))}, vrange(osz)),
              ('ld ra, [sp]', {'id': 'ind_sp', 'val': ('c', 0)}, None),
              ('ld rb, [ix]', {'id': 'ind_ix'}, None),
              ('ld rb, [v1]', {'id': 'ind_n', 'val': V('v1')}, vrange(16)),
              ('ld rb, [ v1 + 2 ]', {'id': 'ind_n', 'val': ('+', V('v1'), ('c', 2))}, vrange(16)),
              ('ld ra, [[v1]]', {'id': 'def_n', 'val': V('v1')}, vrange(16)),
              ('ld ra, v1', {'id': 'imm', 'val': V('v1')}, vrange(8)),
              ('ld ra, t1', {'id': 'imm', 'val': ('lsb', L('t1'))}, None)]
        for i, (text, use, rng) in enumerate(T4):
            if tagx and (i in (5, 6, 8, 10, 11) or (tier == 'quick' and osz == 12 and i > 1) or (ien == 'big' and i > 1)):
                continue
            if text == 'ld ra, t1':
                text = 'ld ra, LSB(t1)'
            cfg = isa(general={'endian': ien}, operand_sets=osets, instructions=ins, consts={'v1': rng} if rng else {})
            u = dict(use)
            u['set'] = 'mem'
            add(f't4:{tagx}{i}:{text}', cfg, {'mnemonic': 'ld', 'text': text,
                                             'uses': [{'set': 'regs', 'id': text.split()[1].rstrip(',')}, u]},
                expect=('ok', 'rejected') if rng else ('ok',))

    # ---- T5: enumeration / numeric enumeration / numeric bytecode ---------------------------------------------
    osets = {'cc': {'operand_values': {'cond': {'type': 'enumeration', 'bytecode': {'size': 3, 'value_dict': {
        'eq': Sym('d_eq', 0, 7), 'ne': Sym('d_ne', 0, 7), 'lt': Sym('d_lt', 0, 7)}},
        'argument': {'size': 4, 'byte_align': False, 'value_dict': {
            'eq': Sym('g_eq', 0, 15), 'ne': Sym('g_ne', 0, 15), 'lt': Sym('g_lt', 0, 15)}}}}},
        'port': {'operand_values': {'p': {'type': 'enumeration', 'argument': {'size': 8, 'byte_align': True, 'value_dict': {
            'uart': Sym('a_uart', 0, 255), 'spi': Sym('a_spi', 0, 255)}}}}},
        'shift': {'operand_values': {'s': {'type': 'numeric_enumeration', 'bytecode': {'size': 2, 'value_dict': {
            1: Sym('s1', 0, 3), 2: Sym('s2', 0, 3), 4: Sym('s4', 0, 3), 8: Sym('s8', 0, 3)}}}}},
        'scale': {'operand_values': {'s': {'type': 'numeric_enumeration', 'argument': {'size': 8, 'byte_align': True, 'value_dict': {
            0: Sym('e0', 0, 255), 16: Sym('e16', 0, 255), 255: Sym('e255', 0, 255)}}}}},
        'bit': {'operand_values': {'b': {'type': 'numeric_bytecode', 'bytecode': {
            'size': 3, 'min': Sym('bmin', -2, 3), 'max': Sym('bmax', 3, 9)}}}},
        'imm': {'operand_values': {'n': {'type': 'numeric', 'argument': arg(8, True)}}}}
    ins = {'br': {'bytecode': code('op', 5), 'operands': {'count': 2, 'operand_sets': {'list': ['cc', 'imm']}}},
           'out': {'bytecode': code('op', 8), 'operands': {'count': 2, 'operand_sets': {'list': ['port', 'imm']}}},
           'shl': {'bytecode': code('op', 6), 'operands': {'count': 1, 'operand_sets': {'list': ['shift']}}},
           'scl': {'bytecode': code('op', 8), 'operands': {'count': 1, 'operand_sets': {'list': ['scale']}}},
           'bset': {'bytecode': code('op', 5), 'operands': {'count': 1, 'operand_sets': {'list': ['bit']}}}}
    for key in ('eq', 'ne', 'lt'):
        add(f't5:enum-code:{key}', isa(operand_sets=osets, instructions=ins, consts={'v1': vrange(8)}),
            {'mnemonic': 'br', 'text': f'br {key}, v1', 'uses': [{'set': 'cc', 'id': 'cond', 'key': key},
                                                              {'set': 'imm', 'id': 'n', 'val': V('v1')}]})
    for key in ('uart', 'spi'):
        add(f't5:enum-arg:{key}', isa(operand_sets=osets, instructions=ins, consts={'v1': vrange(8)}),
            {'mnemonic': 'out', 'text': f'out {key}, v1', 'uses': [{'set': 'port', 'id': 'p', 'key': key},
                                                                {'set': 'imm', 'id': 'n', 'val': V('v1')}]})
    add('t5:numeric-enum-code', isa(operand_sets=osets, instructions=ins, consts={'v1': (-2, 10)}),
        {'mnemonic': 'shl', 'text': 'shl v1', 'uses': [{'set': 'shift', 'id': 's', 'val': V('v1')}]})
    add('t5:numeric-enum-arg', isa(operand_sets=osets, instructions=ins, consts={'v1': (-2, 300)}),
        {'mnemonic': 'scl', 'text': 'scl v1 + 1', 'uses': [{'set': 'scale', 'id': 's', 'val': ('+', V('v1'), ('c', 1))}]})
    # the enumeration is looked up with the value of the whole expression
    add('t5:numeric-enum-code:product', isa(operand_sets=osets, instructions=ins, consts={'v1': (-2, 10)}),
        {'mnemonic': 'shl', 'text': 'shl v1*2', 'uses': [{'set': 'shift', 'id': 's', 'val': ('*', V('v1'), ('c', 2))}]})
    add('t5:numeric-enum-code:mask', isa(operand_sets=osets, instructions=ins, consts={'v1': (0, 40)}),
        {'mnemonic': 'shl', 'text': 'shl v1 & 12', 'uses': [{'set': 'shift', 'id': 's', 'val': ('&', V('v1'), ('c', 12))}]})
    add('t5:numeric-enum-arg:shift', isa(operand_sets=osets, instructions=ins, consts={'v1': (0, 20)}),
        {'mnemonic': 'scl', 'text': 'scl v1 << 4', 'uses': [{'set': 'scale', 'id': 's', 'val': ('<<', V('v1'), ('c', 4))}]})
    add('t5:numeric-bytecode', isa(operand_sets=osets, instructions=ins, consts={'v1': (-6, 12)}),
        {'mnemonic': 'bset', 'text': 'bset v1', 'uses': [{'set': 'bit', 'id': 'b', 'val': V('v1')}]})

    # ---- T6: address (zone, slice) and relative address ----------------------------------------------------------
    zones = {'ROM': (Sym('zs', 0x1000, 0x4000), Sym('ze', 0x4000, 0x9000))}
    osets = {'abs': {'operand_values': {'a': {'type': 'address', 'argument': arg(16, True, 'little')}}},
             'rom': {'operand_values': {'a': {'type': 'address', 'argument': arg(16, True, memory_zone='ROM')}}},
             'page': {'operand_values': {'a': {'type': 'address', 'argument': arg(8, True, slice_lsb=True, match_address_msb=True)}}},
             'nib': {'operand_values': {'a': {'type': 'address', 'argument': arg(12, False, slice_lsb=True, match_address_msb=True)}}},
             'valid': {'operand_values': {'n': {'type': 'numeric', 'argument': arg(24, True, valid_address=True)}}},
             'rel': {'operand_values': {'r': {'type': 'relative_address', 'argument': arg(8, True, min=Sym('rmin', -128, -100), max=Sym('rmax', 100, 127))}}},
             'rele': {'operand_values': {'r': {'type': 'relative_address', 'offset_from_instruction_end': True,
                                               'argument': arg(8, True, min=-128, max=127)}}},
             'relc': {'operand_values': {'r': {'type': 'relative_address', 'use_curly_braces': True,
                                               'argument': arg(16, True, 'little', min=-1000, max=1000)}}}}
    ins = {}
    for k in osets:
        ins['j' + k] = {'bytecode': code('op', 8 if k != 'nib' else 4), 'operands': {'count': 1, 'operand_sets': {'list': [k]}}}
    T6 = [('jabs', 'jabs v1', 'abs', 'a', V('v1'), (-4, 0x10004)), ('jrom', 'jrom v1', 'rom', 'a', V('v1'), (0, 0xA000)),
          ('jpage', 'jpage v1', 'page', 'a', V('v1'), (0, 0x8000)), ('jnib', 'jnib v1', 'nib', 'a', V('v1'), (0, 0xA000)),
          ('jvalid', 'jvalid v1', 'valid', 'n', V('v1'), (-4, 0x10004)),
          ('jrel', 'jrel v1', 'rel', 'r', V('v1'), (0, 0x8000)), ('jrel', 'jrel t1', 'rel', 'r', L('t1'), None),
          ('jrel', 'jrel t0', 'rel', 'r', L('t0'), None),
          ('jrele', 'jrele v1', 'rele', 'r', V('v1'), (0, 0x8000)), ('jrele', 'jrele t1 + 3', 'rele', 'r', ('+', L('t1'), ('c', 3)), None),
          ('jrelc', 'jrelc {v1}', 'relc', 'r', V('v1'), (0, 0x9000)), ('jrelc', 'jrelc { t0 - 2 }', 'relc', 'r', ('-', L('t0'), ('c', 2)), None)]
    for i, (mn, text, st_, oid, val, rng) in enumerate(T6):
        add(f't6:{i}:{text}', isa(operand_sets=osets, instructions=ins, zones=zones, consts={'v1': rng} if rng else {}),
            {'mnemonic': mn, 'text': text, 'uses': [{'set': st_, 'id': oid, 'val': val}]},
            expect=('ok',) if rng is None else ('ok', 'rejected'))

    # a constrained operand reached through a macro: the step is an instruction of its own (own address, own size)
    macros = {'njr': [{'operands': {'count': 1, 'operand_sets': {'list': ['valid']}}, 'instructions': ['nop', 'jrele @ARG(0)']}],
              'njr3': [{'operands': {'count': 1, 'operand_sets': {'list': ['valid']}}, 'instructions': ['nop', 'nop', 'jrel @ARG(0)', 'nop']}]}
    add('t6:macro-step:njr v1', isa(operand_sets=osets, instructions=ins, zones=zones, consts={'v1': (0, 0x8000)}, macros=macros),
        {'mnemonic': 'jrele', 'text': 'njr v1', 'lead_bytes': [0], 'uses': [{'set': 'rele', 'id': 'r', 'val': V('v1')}]}, expect=('ok', 'rejected'))
    add('t6:macro-step:njr t0', isa(operand_sets=osets, instructions=ins, zones=zones, macros=macros),
        {'mnemonic': 'jrele', 'text': 'njr t0', 'lead_bytes': [0], 'uses': [{'set': 'rele', 'id': 'r', 'val': L('t0')}]}, expect=('ok',))

    # ---- T7: indexed / indirect indexed registers ------------------------------------------------------------------
    for ien, isz in (('big', 8), ('little', 16), ('little', 12)):
        tagx = '' if (ien, isz) == ('big', 8) else f'{ien[0]}{isz}:'
        idx = {'ra': {'type': 'register', 'register': 'ra', 'bytecode': code('i_ra', 2)},
               'rb': {'type': 'register', 'register': 'rb', 'bytecode': code('i_rb', 2)},
               'off': {'type': 'numeric', 'bytecode': code('i_n', 2), 'argument': arg(isz, isz != 12)}}
        osets = {'idx': {'operand_values': {
            'ix_i': {'type': 'indexed_register', 'register': 'ix', 'bytecode': code('c_ix', 2), 'index_operands': idx},
            'sp_i': {'type': 'indirect_indexed_register', 'register': 'sp', 'bytecode': code('c_sp', 2), 'index_operands': idx}}},
            'regs': regs_set()}
        ins = {'lx': {'bytecode': code('op', 4), 'operands': {'count': 2, 'operand_sets': {'list': ['regs', 'idx']}}}}
        T7 = [('lx ra, ix + rb', 'ix_i', 'rb', None, None), ('lx rb, ix+v1', 'ix_i', 'off', V('v1'), vrange(isz)),
              ('lx ra, [sp + ra]', 'sp_i', 'ra', None, None), ('lx rb, [sp + v1]', 'sp_i', 'off', V('v1'), vrange(isz)),
              ('lx rb, [ sp+v1+1 ]', 'sp_i', 'off', ('+', V('v1'), ('c', 1)), vrange(isz))]
        for i, (text, oid, iid, ival, rng) in enumerate(T7):
            if tagx and (rng is None or (tier == 'quick' and i == 4)):
                continue
            u = {'set': 'idx', 'id': oid, 'index_id': iid}
            if ival is not None:
                u['index_val'] = ival
            add(f't7:{tagx}{i}:{text}', isa(general={'endian': ien}, operand_sets=osets, instructions=ins, consts={'v1': rng} if rng else {}),
                {'mnemonic': 'lx', 'text': text, 'uses': [{'set': 'regs', 'id': text.split()[1].rstrip(',')}, u]},
                expect=('ok',) if rng is None else ('ok', 'rejected'))

    # a register operand without a code of its own whose index operand has one: the index code is still emitted
    idxn = {'rb': {'type': 'register', 'register': 'rb', 'bytecode': code('i_rb', 4)},
            'off': {'type': 'numeric', 'bytecode': code('i_n', 4), 'argument': arg(8, True)}}
    osets = {'idx': {'operand_values': {
        'ix_i': {'type': 'indexed_register', 'register': 'ix', 'index_operands': idxn},
        'sp_i': {'type': 'indirect_indexed_register', 'register': 'sp', 'index_operands': idxn}}}}
    ins = {'lz': {'bytecode': code('op', 4), 'operands': {'count': 1, 'operand_sets': {'list': ['idx']}}}}
    for i, (text, oid, iid, ival, rng) in enumerate((('lz ix + rb', 'ix_i', 'rb', None, None), ('lz ix + v1', 'ix_i', 'off', V('v1'), vrange(8)),
                                                     ('lz [sp + rb]', 'sp_i', 'rb', None, None), ('lz [sp+v1]', 'sp_i', 'off', V('v1'), vrange(8)))):
        u = {'set': 'idx', 'id': oid, 'index_id': iid}
        if ival is not None:
            u['index_val'] = ival
        add(f't7n:{i}:{text}', isa(operand_sets=osets, instructions=ins, consts={'v1': rng} if rng else {}),
            {'mnemonic': 'lz', 'text': text, 'uses': [u]}, expect=('ok',) if rng is None else ('ok', 'rejected'))
    # index operands whose code is computed from the statement: a signed bit-index and enumerations
    idx = {'nb': {'type': 'numeric_bytecode', 'bytecode': {'size': 3, 'min': Sym('imin', -4, 0), 'max': Sym('imax', 0, 7)}},
           'rr': {'type': 'register', 'register': 'rb', 'bytecode': code('i_rb', 3)}}
    idx2 = {'ne': {'type': 'numeric_enumeration', 'bytecode': {'size': 2, 'value_dict': {1: Sym('n1', 0, 3), 2: Sym('n2', 0, 3), 4: Sym('n4', 0, 3)}}}}
    osets = {'idx': {'operand_values': {
        'ix_i': {'type': 'indexed_register', 'register': 'ix', 'bytecode': code('c_ix', 3), 'index_operands': idx},
        'sp_i': {'type': 'indirect_indexed_register', 'register': 'sp', 'bytecode': code('c_sp', 3), 'index_operands': idx},
        'ix_e': {'type': 'indirect_indexed_register', 'register': 'ix', 'bytecode': code('c_ixe', 2), 'index_operands': idx2}}},
        'regs': regs_set()}
    ins = {'lx': {'bytecode': code('op', 4), 'operands': {'count': 2, 'operand_sets': {'list': ['regs', 'idx']}}}}
    T7c = [('lx ra, ix + v1', 'ix_i', 'nb', V('v1'), (-6, 9)), ('lx rb, [sp + v1]', 'sp_i', 'nb', V('v1'), (-6, 9)),
           ('lx rb, [sp + rb]', 'sp_i', 'rr', None, None),
           ('lx ra, [ix + v1]', 'ix_e', 'ne', V('v1'), (0, 5))]
    for i, (text, oid, iid, ival, rng) in enumerate(T7c):
        u = {'set': 'idx', 'id': oid, 'index_id': iid}
        if ival is not None:
            u['index_val'] = ival
        add(f't7c:{i}:{text}', isa(operand_sets=osets, instructions=ins, consts={'v1': rng} if rng else {}),
            {'mnemonic': 'lx', 'text': text, 'uses': [{'set': 'regs', 'id': text.split()[1].rstrip(',')}, u]},
            expect=('ok',) if rng is None else ('ok', 'rejected'))

    # ---- T8: specific operands, empty operand, variants -----------------------------------------------------------
    ins = {'push': {'bytecode': code('op0', 8), 'operands': {'count': 1, 'specific_operands': {
        'acc': {'list': {'r': {'type': 'register', 'register': 'ra', 'bytecode': code('c_a', 4)}}},
        'imm': {'list': {'n': {'type': 'numeric', 'bytecode': code('c_n', 4), 'argument': arg(16, True, 'little')}}}}},
        'variants': [{'bytecode': code('op1', 8), 'operands': {'count': 2, 'specific_operands': {
            'two': {'reverse_argument_order': True, 'list': {
                'n': {'type': 'numeric', 'argument': arg(8, True)}, 'm': {'type': 'numeric', 'argument': arg(16, True)}}}}}},
            {'bytecode': code('op2', 8)}]},
        'tst': {'bytecode': code('op', 6), 'operands': {'count': 2, 'specific_operands': {
            'impl': {'list': {'n': {'type': 'numeric', 'argument': arg(8, True)},
                              'e': {'type': 'empty', 'bytecode': code('c_e', 2)}}}}}}}
    T8 = [('push', 0, 'push ra', [{'spec': 'acc', 'id': 'r'}], None),
          ('push', 0, 'push v1', [{'spec': 'imm', 'id': 'n', 'val': V('v1')}], vrange(16)),
          ('push', 1, 'push v1, v2', [{'spec': 'two', 'id': 'n', 'val': V('v1')}, {'spec': 'two', 'id': 'm', 'val': V('v2')}], vrange(8)),
          ('push', 2, 'push', [], None),
          ('tst', 0, 'tst v1', [{'spec': 'impl', 'id': 'n', 'val': V('v1')}, {'spec': 'impl', 'id': 'e'}], vrange(8))]
    for i, (mn, var, text, uses, rng) in enumerate(T8):
        cs = {}
        if rng:
            cs['v1'] = rng
            cs['v2'] = vrange(16)
        add(f't8:{i}:{text}', isa(instructions=ins, consts=cs), {'mnemonic': mn, 'variant': var, 'text': text, 'uses': uses},
            expect=('ok',) if rng is None else ('ok', 'rejected'))
    # ---- T9: two variants that both accept a number; only the second takes a register ------------------------------
    osets = {'imm8': {'operand_values': {'n': {'type': 'numeric', 'bytecode': code('c_n8', 2), 'argument': arg(8, True)}}},
             'any16': {'operand_values': {'r': {'type': 'register', 'register': 'ra', 'bytecode': code('c_r', 2)},
                                          'n': {'type': 'numeric', 'bytecode': code('c_n16', 2), 'argument': arg(16, True, 'little')}}}}
    ins = {'ldv': {'bytecode': code('op0', 6), 'operands': {'count': 1, 'operand_sets': {'list': ['imm8']}},
                   'variants': [{'bytecode': code('op1', 6), 'operands': {'count': 1, 'operand_sets': {'list': ['any16']}}}]}}
    add('t9:0:ldv v1', isa(operand_sets=osets, instructions=ins, consts={'v1': vrange(8)}),
        {'mnemonic': 'ldv', 'variant': 0, 'text': 'ldv v1', 'uses': [{'set': 'imm8', 'id': 'n', 'val': V('v1')}]})
    add('t9:1:ldv ra', isa(operand_sets=osets, instructions=ins, consts={'v1': vrange(8)}),
        {'mnemonic': 'ldv', 'variant': 1, 'text': 'ldv ra', 'uses': [{'set': 'any16', 'id': 'r'}]}, expect=('ok',))
    return out


def instr_shapes(tier, seed, props, only=None):
    S = []
    for sid, cfg, stmt, expect in templates(tier, seed):
        if only and not any(sid.startswith(p) for p in only):
            continue
        wide = any(w in sid for w in ('arg48', 'arg64', 'arg33'))
        S.append(InstrShape(sid, config=cfg, stmt=stmt, props=list(props), expect=expect, width=96 if wide else 48))
    # the same statements in contexts that must not matter: inside a selected conditional branch, in an included file,
    # after a muted region, label on its own line, mnemonic in upper case (each template gets one context in the quick
    # tier, all of them in the thorough tier)
    for n, sh in enumerate(list(S)):
        for k, c in enumerate(CONTEXTS):
            if tier == 'quick' and (n % (2 * len(CONTEXTS))) != k:
                continue
            pr = {kk: vv for kk, vv in sh.params.items() if kk != 'files'}
            S.append(InstrShape(f'{c}:{sh.sid}', context=c, **pr))
    # instructions with several variants: the statement again, preceded (muted) by the other forms of its mnemonic -
    # which variant a statement gets must not depend on what was assembled earlier
    import re as _re
    groups = {}
    for sh in S:
        c = sh.params['config']
        if sh.params.get('context') or not any('variants' in i for i in c['instructions'].values()):
            continue
        groups.setdefault(repr(c['instructions']) + repr(c.get('operand_sets')), []).append(sh)
    for shs in groups.values():
        for sh in shs:
            others = [_re.sub(r'\bv\d\b', '1', o.params['stmt']['text']) for o in shs if o is not sh]
            if others:
                pr = {kk: vv for kk, vv in sh.params.items() if kk != 'files'}
                S.append(InstrShape('after-other-forms:' + sh.sid, prelude=others, **pr))
    return S


CONTEXTS = ('if1', 'else-branch', 'after-muted-region', 'included', 'label-on-own-line', 'uppercase')


# ---------------------------------------------------------------------------------------------------------------------
# seeded random ISA structures (structural breadth; every numeric leaf still symbolic)
# ---------------------------------------------------------------------------------------------------------------------
def _rand_operand(rnd, kind, tag, k):
    """-> (operand config, text, use-dict fragment, consts) for operand position k"""
    v = f'v{k}'
    pos = rnd.choice([None, None, 'prefix', 'suffix'])
    csz = rnd.randint(1, 6)
    bc = lambda: code(f'{tag}_c', csz, pos)  # noqa
    asz = rnd.choice([3, 4, 5, 8, 8, 12, 16, 16, 24, 7, 9])
    al = rnd.random() < 0.6
    en = rnd.choice([None, 'big', 'little'])
    a = lambda **kw: arg(asz, al, en, **kw)  # noqa
    if kind == 'numeric':
        od = {'type': 'numeric', 'argument': a()}
        if rnd.random() < 0.7:
            od['bytecode'] = bc()
        return od, v, {'val': V(v)}, {v: vrange(asz)}
    if kind == 'indirect_numeric':
        return {'type': 'indirect_numeric', 'bytecode': bc(), 'argument': a()}, f'[{v}]', {'val': V(v)}, {v: vrange(asz)}
    if kind == 'deferred_numeric':
        return {'type': 'deferred_numeric', 'bytecode': bc(), 'argument': a()}, f'[[ {v} ]]', {'val': V(v)}, {v: vrange(asz)}
    if kind == 'register':
        r = rnd.choice(['ra', 'rb'])
        return {'type': 'register', 'register': r, 'bytecode': bc()}, r, {}, {}
    if kind == 'indirect_register':
        r = rnd.choice(['sp', 'ix'])
        od = {'type': 'indirect_register', 'register': r, 'bytecode': bc()}
        if rnd.random() < 0.6:
            osz = rnd.choice([4, 8, 12, 16])
            od['offset'] = {'size': osz, 'byte_align': rnd.random() < 0.6}
            if rnd.random() < 0.5:
                od['offset']['endian'] = rnd.choice(['big', 'little'])
            form = rnd.choice(['plus', 'minus', 'none'])
            if form == 'plus':
                return od, f'[{r} + {v}]', {'val': V(v)}, {v: vrange(osz)}
            if form == 'minus':
                return od, f'[{r}-{v}]', {'val': ('neg', V(v))}, {v: vrange(osz)}
            return od, f'[{r}]', {'val': ('c', 0)}, {}
        return od, f'[ {r} ]', {}, {}
    if kind in ('indexed_register', 'indirect_indexed_register'):
        r = rnd.choice(['sp', 'ix'])
        isz = rnd.choice([4, 8, 12, 16])
        ia = {'size': isz, 'byte_align': rnd.random() < 0.6}
        if rnd.random() < 0.4:
            ia['endian'] = rnd.choice(['big', 'little'])
        idx = {'ir': {'type': 'register', 'register': 'ra', 'bytecode': code(f'{tag}_ir', 2)},
               'off': {'type': 'numeric', 'bytecode': code(f'{tag}_in', 2), 'argument': ia}}
        od = {'type': kind, 'register': r, 'bytecode': bc(), 'index_operands': idx}
        q = rnd.random()
        if q < 0.25:
            text, use, cs = f'{r} + ra', {'index_id': 'ir'}, {}
        elif q < 0.5:
            # the index is a signed bit-index coded into the operand code itself
            del idx['off']
            # (all index operands of one operand share one code size)
            idx['nb'] = {'type': 'numeric_bytecode', 'bytecode': {'size': 2, 'min': Sym(f'{tag}_imin', -2, 0), 'max': Sym(f'{tag}_imax', 0, 3)}}
            text, use, cs = f'{r} + {v}', {'index_id': 'nb', 'index_val': V(v)}, {v: (-4, 5)}
        else:
            text, use, cs = f'{r}+{v}', {'index_id': 'off', 'index_val': V(v)}, {v: vrange(isz)}
        if kind == 'indirect_indexed_register':
            text = f'[{text}]'
        return od, text, use, cs
    if kind == 'enumeration':
        keys = ['eq', 'ne', 'gt']
        key = rnd.choice(keys)
        od = {'type': 'enumeration', 'argument': {'size': asz, 'byte_align': al, 'value_dict': {
            q: Sym(f'{tag}_a_{q}', 0, (1 << asz) - 1) for q in keys}}}
        if rnd.random() < 0.6:
            od['bytecode'] = {'size': csz, 'value_dict': {q: Sym(f'{tag}_b_{q}', 0, (1 << csz) - 1) for q in keys}}
            if pos:
                od['bytecode']['position'] = pos
        return od, key, {'key': key}, {}
    if kind == 'numeric_enumeration':
        keys = rnd.sample([0, 1, 2, 4, 8, 16, 255], 3)
        od = {'type': 'numeric_enumeration', 'bytecode': {'size': csz, 'value_dict': {
            q: Sym(f'{tag}_n_{q}', 0, (1 << csz) - 1) for q in keys}}}
        if pos:
            od['bytecode']['position'] = pos
        return od, v, {'val': V(v)}, {v: (-2, 260)}
    if kind == 'numeric_bytecode':
        od = {'type': 'numeric_bytecode', 'bytecode': {'size': csz, 'min': Sym(f'{tag}_min', -3, 2), 'max': Sym(f'{tag}_max', 2, 70)}}
        if pos:
            od['bytecode']['position'] = pos
        return od, f'{v} + 1', {'val': ('+', V(v), ('c', 1))}, {v: (-8, 80)}
    if kind == 'address':
        od = {'type': 'address', 'argument': arg(rnd.choice([16, 16, 24]), al, en)}
        if rnd.random() < 0.5:
            od['bytecode'] = bc()
        if rnd.random() < 0.4:
            od['argument'] = arg(rnd.choice([8, 12]), al, en, slice_lsb=True, match_address_msb=True)
        return od, v, {'val': V(v)}, {v: (-4, 0x10004)}
    if kind == 'relative_address':
        rsz = rnd.choice([8, 8, 12, 16])
        lim = 1 << (rsz - 1)
        od = {'type': 'relative_address', 'argument': arg(rsz, al, en, min=Sym(f'{tag}_rmin', -lim, -lim + 8), max=Sym(f'{tag}_rmax', lim - 9, lim - 1))}
        if rnd.random() < 0.5:
            od['offset_from_instruction_end'] = True
        if rnd.random() < 0.4:
            od['bytecode'] = bc()
        brace = rnd.random() < 0.3
        if brace:
            od['use_curly_braces'] = True
        txt = f'o0 + {v}'
        return od, ('{' + txt + '}') if brace else txt, {'val': ('+', V('o0'), V(v))}, {v: (-lim - 6, lim + 6)}
    raise ValueError(kind)


KIND_GROUPS = [['numeric', 'address', 'relative_address', 'numeric_bytecode', 'numeric_enumeration'],   # at most one per set
               ['indirect_numeric'], ['deferred_numeric'], ['register'], ['indirect_register'], ['enumeration'],
               ['indexed_register'], ['indirect_indexed_register']]


def random_isa(rnd, idx):
    n_ops = rnd.choice([0, 1, 1, 2, 2, 3])
    osets, uses, texts, consts = {}, [], [], {}
    for k in range(1, n_ops + 1):
        groups = rnd.sample(KIND_GROUPS, rnd.randint(1, 3))
        members = {}
        chosen = None
        for gi, g in enumerate(groups):
            kind = rnd.choice(g)
            od, text, use, cs = _rand_operand(rnd, kind, f's{k}m{gi}', k)
            members[f'm{gi}'] = od
            if chosen is None or rnd.random() < 0.4:
                chosen = (f'm{gi}', text, use, cs)
        # the same register form twice in one set would be ambiguous: keep the first (or the chosen one); `[r+v]` is
        # both an indirect register with offset and an indirect indexed register, so those two share a key
        seen_regs = set()
        for mid in list(members):
            od = members[mid]
            if od['type'] in ('register', 'indirect_register', 'indexed_register', 'indirect_indexed_register'):
                t = od['type']
                if t == 'indirect_indexed_register' or (t == 'indirect_register' and 'offset' in od):
                    t = 'indirect-with-offset'
                keyr = (t, od['register'])
                if keyr in seen_regs and mid != chosen[0]:
                    del members[mid]
                    continue
                if keyr in seen_regs and mid == chosen[0]:
                    for other in list(members):
                        o2 = members[other]
                        t2 = o2['type']
                        if t2 == 'indirect_indexed_register' or (t2 == 'indirect_register' and 'offset' in o2):
                            t2 = 'indirect-with-offset'
                        if other != mid and (t2, o2.get('register')) == keyr:
                            del members[other]
                seen_regs.add(keyr)
        osets[f'set{k}'] = {'operand_values': members}
        u = {'set': f'set{k}', 'id': chosen[0]}
        u.update(chosen[2])
        uses.append(u)
        texts.append(chosen[1])
        consts.update(chosen[3])
    osz = rnd.choice([3, 4, 5, 8, 8, 8, 12, 16])
    bc = code('op', osz)
    if rnd.random() < 0.3:
        bc['endian'] = rnd.choice(['big', 'little'])
    if rnd.random() < 0.3:
        bc['suffix'] = code('sfx', rnd.choice([1, 2, 3, 4, 5, 6, 7, 8, 12, 16]))
    ins = {'bytecode': bc}
    if n_ops:
        ops = {'count': n_ops, 'operand_sets': {'list': [f'set{k}' for k in range(1, n_ops + 1)]}}
        if rnd.random() < 0.35:
            ops['operand_sets']['reverse_argument_order'] = True
        if rnd.random() < 0.35:
            ops['operand_sets']['reverse_bytecode_order'] = True
        ins['operands'] = ops
    cfg = isa(general={'endian': rnd.choice(['big', 'little'])}, operand_sets=osets, instructions={'xop': ins}, consts=consts)
    stmt = {'mnemonic': 'xop', 'text': 'xop ' + ', '.join(texts) if texts else 'xop', 'uses': uses}
    return f'rndisa:{idx}:{stmt["text"]}', cfg, stmt


def random_instr_shapes(tier, seed, props):
    rnd = random.Random(900 + seed)
    S = []
    for i in range(60 if tier == 'quick' else 3000):
        sid, cfg, stmt = random_isa(rnd, f'{seed}.{i}')
        S.append(InstrShape(sid, config=cfg, stmt=stmt, props=list(props), expect=[], width=64))
    return S
