"""C06 - label references resolve only within their lexical scope (PIPE; values symbolic so that a reference that
resolves to the wrong definition is a solver-visible difference for some values)."""
from __future__ import annotations

import random

import z3

from sx import engine as E
from sx.pipe import Sym
from sx.shims import STUBS  # noqa
from .layout import LayoutShape
from . import refasm

ID = 'C06'
BUDGET_S = {'quick': 170, 'thorough': 3600}
SHAPE_WALL_S = {'quick': 100, 'thorough': 600}
FAMILY = ('PIPE: arrangements of global / file (_x) / local (.x) label definitions, global and file constants and references '
          'over <= 3 files (includes), <= 4 local regions, same-named labels in different regions and files, .org and '
          '.memzone between definition and use; every constant carries a distinct symbolic value and the origin is symbolic; '
          'rejection catalogue: duplicate in a scope, no visible definition, local label without enclosing non-local label, '
          'register / keyword names')
BOUNDS = {'constant values': '0..0xFFFF each an independent symbol', 'origin': '0x100..0x4000', 'arrangements': 'enumerated (catalogue + seeded random)'}
ASSUMPTIONS = ['a reference is observed through `.2byte name`', 'which definition is visible is computed by an independent resolver '
               'written from the scope rules of the statement']

# items: ('g', name) global label | ('f', name) file label | ('l', name) local label | ('gc', name) global constant
#        ('fc', name) file constant | ('ref', name) | ('org', offset) | ('memzone', zone) | ('include', file) | ('nop',)


def display(item):
    k = item[0]
    if k in ('g',):
        return f'{item[1]}:'
    if k == 'f':
        return f'_{item[1]}:'
    if k == 'l':
        return f'.{item[1]}:'
    if k == 'gc':
        return f'{item[1]} = {item[2]}'
    if k == 'fc':
        return f'_{item[1]} = {item[2]}'
    if k == 'ref':
        return f'.2byte {item[1]}'
    if k == 'org':
        return f'.org o0 + {item[1]}'
    if k == 'memzone':
        return f'.memzone {item[1]}'
    if k == 'include':
        return f'#include "{item[1]}"'
    if k == 'nop':
        return 'nop'
    if k in ('mute', 'unmute'):
        return '#' + k
    if k == 'if':
        return f'#if {item[1]}'
    if k in ('else', 'endif'):
        return '#' + k
    raise ValueError(item)


class Resolver:
    """Independent scope resolver: assigns every definition a unique name and every reference the unique name of the
    definition visible from it (or a rejection reason)."""

    def __init__(self, files, main, registers=('ra', 'rb'), keywords=()):
        self.files = files
        self.reject = None
        self.defs = {'g': {}, 'f': {}, 'l': {}}     # scope key -> name -> unique
        self.out = {}                                 # file -> unique-name refasm statements
        self.refs = []                                # (file, idx, name, scope-context)
        self.registers = set(registers)
        self.counter = 0
        self._scan(main)
        if self.reject is None:
            self._resolve()

    def _uniq(self, base):
        self.counter += 1
        return f'u{self.counter}_{base}'

    conditional = False

    def _define(self, kind, key, name):
        table = self.defs[kind].setdefault(key, {})
        if name in table:
            self.reject = self.reject or f'{name} defined twice in one scope'
        u = self._uniq(name)
        table[name] = u
        return u

    def _scan(self, fname):
        stmts = []
        self.out[fname] = stmts
        region = None           # id of the enclosing non-local label, None after an origin / zone directive
        nreg = 0
        cond = []               # open conditional blocks of this file: [selected?]
        for idx, it in enumerate(self.files[fname]):
            k = it[0]
            if k in ('if', 'else', 'endif'):
                # conditions are the constants 0 / 1 here: lines of an unselected branch define and reference nothing
                if k == 'if':
                    cond.append(bool(it[1]))
                elif k == 'else':
                    cond[-1] = not cond[-1]
                else:
                    cond.pop()
                stmts.append(None)
                self.conditional = True
                continue
            if not all(cond):
                stmts.append(None)
                continue
            if (k in ('g', 'f', 'gc', 'fc') and it[1] in self.registers) \
                    or (k in ('g', 'gc') and it[1].lower() in {r.lower() for r in self.registers}):   # register names ignore case
                self.reject = self.reject or 'register name used as label'
            if k == 'g':
                stmts.append(('label', self._define('g', 'global', it[1])))
                nreg += 1
                region = (fname, nreg)
            elif k == 'f':
                stmts.append(('label', self._define('f', fname, '_' + it[1])))
                nreg += 1
                region = (fname, nreg)
            elif k == 'l':
                if region is None:
                    self.reject = self.reject or 'local label without enclosing non-local label'
                    stmts.append(('label', self._uniq('orphan')))
                else:
                    stmts.append(('label', self._define('l', region, '.' + it[1])))
            elif k == 'gc':
                stmts.append(('const', self._define('g', 'global', it[1]), ('v', it[2])))
            elif k == 'fc':
                stmts.append(('const', self._define('f', fname, '_' + it[1]), ('v', it[2])))
            elif k == 'ref':
                stmts.append(None)
                self.refs.append((fname, idx, it[1], region))
            elif k == 'org':
                stmts.append(('org', ('+', ('v', 'o0'), ('c', it[1])), None))
                region = None
            elif k == 'memzone':
                stmts.append(('memzone', it[1]))
                region = None
            elif k == 'include':
                stmts.append(('include', it[1]))
                self._scan(it[1])
            elif k == 'nop':
                stmts.append(('instr', 'nop', None))
            elif k in ('mute', 'unmute'):
                stmts.append((k,))          # muting changes what is emitted, never what a name refers to

    def _resolve(self):
        for fname, idx, name, region in self.refs:
            if name.startswith('.'):
                u = self.defs['l'].get(region, {}).get(name) if region is not None else None
            elif name.startswith('_'):
                u = self.defs['f'].get(fname, {}).get(name)
            else:
                u = self.defs['g'].get('global', {}).get(name)
                if name in self.registers:
                    u = None
                if u is None and (name == 'o0' or (name.startswith('v') and name[1:].isdigit())):
                    self.out[fname][idx] = ('data', '.2byte', [('v', name)])     # predefined constant of the ISA
                    continue
            if u is None:
                self.reject = self.reject or f'no visible definition of {name}'
                u = 'missing'
            self.out[fname][idx] = ('data', '.2byte', [('lbl', u)])


class ScopeShape(LayoutShape):
    def __init__(self, sid, **params):
        files = params['items']
        res = Resolver(files, 'main.asm')
        src = {f: '\n'.join(display(i) for i in its) + '\n' for f, its in files.items()}
        params = dict(params)
        params['files'] = src
        params['prog'] = {f: [s if s is not None else ('instr', 'nop', None) for s in st] for f, st in res.out.items()}
        params['must_reject'] = res.reject
        params['acceptance_only'] = res.conditional
        params.setdefault('props', ['C06'])
        params.setdefault('binary', False)
        params.setdefault('width', 32)
        syms = sorted({it[2] for its in files.values() for it in its if it[0] in ('gc', 'fc')})
        params.setdefault('cfgargs', {'consts': dict({'o0': (0x100, 0x4000)}, **{s: (0, 0xFFFF) for s in syms}),
                                      'origin': 0, 'zones': {'ZA': (0x6000, 0x6fff)}})
        super().__init__(sid, **params)
        self.params['files'] = src

    def expected_outcomes(self):
        if self.sid.startswith('rnd:'):
            return []
        return ['rejected'] if self.params['must_reject'] else ['ok']

    def judge(self, env, out):
        if self.params['must_reject']:
            return [('C06.' + self.params['must_reject'].split(' of ')[0].replace(' ', '_') + '_is_rejected',
                     z3.BoolVal(out.kind != 'ok'))]
        if self.params.get('acceptance_only'):
            # arrangements with conditional blocks: only acceptance is judged (the layout reference is not built)
            return [('C06.program_with_only_visible_references_is_assembled', z3.BoolVal(out.kind == 'ok'))]
        ref = self.ref(env)
        if out.kind != 'ok':
            return [('C06.program_with_only_visible_references_is_assembled',
                     z3.Or(z3.Not(ref.strictly_legal()), ref.overlap(include_muted=True)))]
        obl = self._judge_lines(env, out, ref, 'C06')
        return [o for o in obl if 'label_values' in o[0] or 'labels_and' in o[0]]

    def describe(self):
        return {'shape': self.sid, 'files': self.params['files'], 'must_reject': self.params['must_reject']}


G, F, Lc, GC, FC, R = (lambda n: ('g', n)), (lambda n: ('f', n)), (lambda n: ('l', n)), \
    (lambda n, s: ('gc', n, s)), (lambda n, s: ('fc', n, s)), (lambda n: ('ref', n))
NOP = ('nop',)


def catalogue():
    C = {}
    C['local-same-name-two-regions'] = {'main.asm': [G('a'), Lc('x'), NOP, R('.x'), G('b'), NOP, Lc('x'), R('.x'), R('a'), R('b')]}
    C['local-forward-and-backward'] = {'main.asm': [G('a'), R('.x'), NOP, Lc('x'), R('.x'), Lc('y'), R('.y')]}
    C['local-under-file-label'] = {'main.asm': [F('fa'), Lc('x'), R('.x'), F('fb'), Lc('x'), NOP, R('.x'), R('_fa'), R('_fb')]}
    C['file-labels-two-files'] = {'main.asm': [F('t'), NOP, R('_t'), ('include', 'inc.asm'), R('_t'), R('gi')],
                                  'inc.asm': [G('gi'), NOP, F('t'), R('_t'), NOP]}
    C['file-constants-two-files'] = {'main.asm': [FC('k', 'v1'), R('_k'), ('include', 'inc.asm'), R('_k'), R('gk')],
                                     'inc.asm': [FC('k', 'v2'), GC('gk', 'v3'), R('_k'), R('gk')]}
    C['global-constant-and-label-everywhere'] = {'main.asm': [GC('kk', 'v1'), G('m'), R('kk'), ('include', 'inc.asm'), R('inc_g')],
                                                 'inc.asm': [R('kk'), R('m'), G('inc_g'), NOP]}
    C['local-regions-across-include'] = {'main.asm': [G('a'), Lc('x'), ('include', 'inc.asm'), R('.x'), Lc('y'), R('.y')],
                                         'inc.asm': [G('ia'), Lc('x'), R('.x'), NOP]}
    C['nested-include'] = {'main.asm': [F('t'), ('include', 'inc.asm'), R('_t')],
                           'inc.asm': [F('t'), ('include', 'inc2.asm'), R('_t')],
                           'inc2.asm': [F('t'), NOP, R('_t')]}
    C['org-then-new-region'] = {'main.asm': [G('a'), Lc('x'), R('.x'), ('org', 0x40), G('b'), Lc('x'), NOP, R('.x')]}
    C['memzone-then-new-region'] = {'main.asm': [G('a'), Lc('x'), R('.x'), ('memzone', 'ZA'), G('b'), Lc('x'), NOP, R('.x')]}
    C['memzone-same-zone-then-new-region'] = {'main.asm': [G('a'), Lc('x'), R('.x'), ('memzone', 'GLOBAL'), G('b'), Lc('x'), NOP, R('.x'),
                                                           ('memzone', 'ZA'), G('c'), Lc('x'), ('memzone', 'ZA'), G('d'), Lc('x'), R('.x')]}
    C['constants-do-not-open-a-region'] = {'main.asm': [G('a'), Lc('x'), GC('c1', 'v1'), FC('c2', 'v2'), R('.x'), Lc('y'), R('.y'),
                                                        R('c1'), R('_c2')]}
    C['predefined-and-labels'] = {'main.asm': [G('a'), R('o0'), R('a')]}
    # ---- rejections -----------------------------------------------------------------------------------------------
    C['rej:local-ref-from-other-region'] = {'main.asm': [G('a'), Lc('x'), NOP, G('b'), R('.x')]}
    C['rej:local-ref-after-org'] = {'main.asm': [G('a'), Lc('x'), NOP, ('org', 0x40), R('.x')]}
    C['rej:local-ref-after-memzone'] = {'main.asm': [G('a'), Lc('x'), NOP, ('memzone', 'ZA'), R('.x')]}
    # a zone directive ends the region even if it re-selects the zone that is already current
    C['rej:local-ref-after-memzone-same-zone'] = {'main.asm': [G('a'), Lc('x'), NOP, ('memzone', 'GLOBAL'), R('.x')]}
    C['rej:local-ref-after-memzone-twice'] = {'main.asm': [('memzone', 'ZA'), G('a'), Lc('x'), NOP, ('memzone', 'ZA'), R('.x')]}
    C['rej:local-def-after-memzone-same-zone'] = {'main.asm': [G('a'), NOP, ('memzone', 'GLOBAL'), Lc('x'), NOP]}
    C['rej:local-def-after-org'] = {'main.asm': [G('a'), NOP, ('org', 0x40), Lc('x'), NOP]}
    C['rej:local-before-any-label'] = {'main.asm': [Lc('x'), NOP, G('a')]}
    C['rej:file-label-from-includer'] = {'main.asm': [('include', 'inc.asm'), R('_t')], 'inc.asm': [F('t'), NOP]}
    C['rej:file-label-from-included'] = {'main.asm': [F('t'), NOP, ('include', 'inc.asm')], 'inc.asm': [R('_t')]}
    C['rej:file-constant-from-other-file'] = {'main.asm': [FC('k', 'v1'), ('include', 'inc.asm')], 'inc.asm': [R('_k')]}
    C['rej:local-from-included-file'] = {'main.asm': [G('a'), Lc('x'), ('include', 'inc.asm')], 'inc.asm': [R('.x')]}
    # labels, origins and references in an unselected branch do not exist: they open or close no region, define nothing
    IF0, IF1, ELSE, ENDIF = ('if', 0), ('if', 1), ('else',), ('endif',)
    C['dead-label-does-not-split-a-region'] = {'main.asm': [G('a'), Lc('x'), IF0, G('dead'), NOP, ENDIF, R('.x'), NOP]}
    C['dead-file-label-and-origin-do-not-split-a-region'] = {'main.asm': [G('a'), Lc('x'), IF1, NOP, ELSE, F('dead'), ('org', 0x40), ENDIF,
                                                                          R('.x'), NOP]}
    C['live-label-in-selected-branch-opens-a-region'] = {'main.asm': [G('a'), Lc('x'), IF1, G('b'), Lc('x'), ENDIF, R('.x'), NOP]}
    C['rej:duplicate-local-around-a-dead-label'] = {'main.asm': [G('a'), Lc('x'), IF0, G('dead'), ENDIF, Lc('x'), NOP]}
    C['rej:reference-to-a-label-defined-in-a-dead-branch'] = {'main.asm': [G('a'), IF0, G('dead'), ENDIF, R('dead'), NOP]}
    C['rej:local-after-live-label-in-else-branch'] = {'main.asm': [G('a'), Lc('x'), IF0, NOP, ELSE, G('b'), ENDIF, R('.x'), NOP]}
    # references on muted lines are resolved (and rejected) like any other
    MU, UN = ('mute',), ('unmute',)
    C['muted-region-resolves-like-any-other'] = {'main.asm': [F('t'), NOP, G('a'), Lc('x'), MU, R('.x'), R('a'), R('_t'), UN, R('.x'), R('_t')]}
    C['rej:undefined-reference-in-muted-region'] = {'main.asm': [G('a'), MU, R('nowhere'), UN, NOP]}
    C['rej:local-of-other-region-in-muted-region'] = {'main.asm': [G('a'), Lc('x'), NOP, G('b'), MU, R('.x'), UN, NOP]}
    C['rej:file-label-of-other-file-in-muted-region'] = {'main.asm': [F('t'), NOP, ('include', 'inc.asm')], 'inc.asm': [MU, R('_t'), UN]}
    C['rej:duplicate-global'] = {'main.asm': [G('a'), NOP, G('a')]}
    C['rej:duplicate-global-across-files'] = {'main.asm': [G('a'), ('include', 'inc.asm')], 'inc.asm': [NOP, G('a')]}
    C['rej:duplicate-file-label'] = {'main.asm': [F('t'), NOP, F('t')]}
    C['rej:duplicate-local-in-region'] = {'main.asm': [G('a'), Lc('x'), NOP, Lc('x')]}
    C['rej:duplicate-constant'] = {'main.asm': [GC('k', 'v1'), GC('k', 'v2')]}
    C['rej:constant-and-label-same-name'] = {'main.asm': [GC('k', 'v1'), NOP, G('k')]}
    C['rej:undefined-global'] = {'main.asm': [G('a'), R('nowhere')]}
    C['rej:register-as-label'] = {'main.asm': [G('ra'), NOP]}
    C['rej:register-as-constant'] = {'main.asm': [GC('rb', 'v1'), NOP]}
    C['rej:register-as-reference'] = {'main.asm': [G('a'), R('ra')]}
    C['rej:register-as-label-in-other-case'] = {'main.asm': [G('RA'), NOP]}
    C['rej:register-as-label-in-mixed-case'] = {'main.asm': [G('a'), NOP, G('Rb'), NOP]}
    C['rej:register-as-constant-in-other-case'] = {'main.asm': [GC('RB', 'v1'), NOP]}
    return C


class KeywordShape(ScopeShape):
    """label named like an assembler keyword (with each scope prefix)"""

    def __init__(self, sid, **params):
        super().__init__(sid, **params)
        self.params['must_reject'] = 'keyword used as label'


def random_arrangement(rnd):
    """definitions first (mostly without duplicates), then references drawn mostly from the names visible at the chosen
    position, sometimes from another scope (which must then be rejected)"""
    files = {'main.asm': [], 'inc.asm': []}
    nconst = [0]
    faulty = rnd.random() < 0.25

    def gen_defs(fname, n, with_include):
        its = files[fname]
        tag = fname[0]
        ng = 0
        used_file = set()
        used_local = set()
        have_region = False
        for i in range(n):
            r = rnd.random()
            if r < 0.28:
                ng += 1
                its.append(G(f'{tag}g{ng}'))
                have_region, used_local = True, set()
            elif r < 0.42:
                nm = rnd.choice([x for x in ['x', 'y', 'z'] if x not in used_file] or ['w%d' % i])
                used_file.add(nm)
                its.append(F(nm))
                have_region, used_local = True, set()
            elif r < 0.68 and have_region:
                nm = rnd.choice([x for x in ['x', 'y'] if x not in used_local] or ['q%d' % i])
                used_local.add(nm)
                its.append(Lc(nm))
            elif r < 0.78:
                nconst[0] += 1
                nm = rnd.choice([x for x in ['k', 'j'] if x not in used_file] or ['kk%d' % i])
                used_file.add(nm)
                its.append(FC(nm, f'v{nconst[0]}'))
            elif r < 0.86:
                nconst[0] += 1
                its.append(GC(f'{tag}c{nconst[0]}', f'v{nconst[0]}'))
            elif r < 0.92 and fname == 'main.asm':
                its.append(('org', 0x40 * rnd.randint(1, 3)) if rnd.random() < 0.6 else ('memzone', rnd.choice(['GLOBAL', 'ZA'])))
                have_region, used_local = False, set()
            else:
                its.append(NOP)
        if with_include:
            its.insert(rnd.randint(0, len(its)), ('include', 'inc.asm'))
    gen_defs('main.asm', rnd.randint(5, 9), True)
    gen_defs('inc.asm', rnd.randint(3, 6), False)
    # visible names per position, by the statement's rules
    allg = [it[1] for f in files.values() for it in f if it[0] in ('g', 'gc')]
    for fname, its in files.items():
        filenames = ['_' + it[1] for it in its if it[0] in ('f', 'fc')]
        other = '_' + ('x' if fname == 'inc.asm' else 'y')
        # regions
        regions, cur, table = [], None, {}
        for it in its:
            if it[0] in ('g', 'f'):
                cur = object()
            elif it[0] in ('org', 'memzone'):
                cur = None
            elif it[0] == 'l' and cur is not None:
                table.setdefault(cur, []).append('.' + it[1])
            regions.append(cur)
        nrefs = rnd.randint(2, 4)
        for _ in range(nrefs):
            pos = rnd.randint(0, len(its))
            reg = regions[pos - 1] if pos > 0 else None
            # keep `regions` aligned with `its`
            pool = list(allg) + filenames + table.get(reg, [])
            if faulty and rnd.random() < 0.4:
                name = rnd.choice(['.x', '.y', other, 'nowhere', '_k'])
            elif pool:
                name = rnd.choice(pool)
            else:
                continue
            its.insert(pos, R(name))
            regions.insert(pos, reg)
    return files


def shapes(tier, seed):
    S = []
    for name, files in catalogue().items():
        S.append(ScopeShape(name, items=files))
    for kw in ('org', 'byte', 'LSB', 'BYTE2', 'include', 'zero', 'fill'):
        S.append(KeywordShape(f'rej:keyword-label:{kw}', items={'main.asm': [G(kw), NOP]}))
        S.append(KeywordShape(f'rej:keyword-file-label:{kw}', items={'main.asm': [F(kw), NOP]}))
    S.append(KeywordShape('rej:keyword-local-label:fill', items={'main.asm': [G('a'), Lc('fill'), NOP]}))
    S.append(KeywordShape('rej:keyword-constant:zero', items={'main.asm': [GC('zero', 'v1'), NOP]}))
    rnd = random.Random(606 + seed)
    for i in range(250 if tier == 'quick' else 8000):
        S.append(ScopeShape(f'rnd:{seed}:{i}', items=random_arrangement(rnd)))
    return S
