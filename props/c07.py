"""C07 - numeric expressions evaluate to their arithmetic value (UNIT: real parser + evaluator on proxies)."""
from __future__ import annotations

import itertools
import random

import z3

from sx import engine as E
from sx.harness import Shape, under, zv
from sx.shims import STUBS  # noqa

ID = 'C07'
BUDGET_S = {'quick': 280, 'thorough': 3600}
SHAPE_WALL_S = {'quick': 240, 'thorough': 900}
FAMILY = ('UNIT: parse_expression(text).get_value(scope) where text is rendered with minimal parentheses from an '
          'enumerated operator tree (<= 2 binary operators quick / <= 3 thorough, unary minus, LSB/BYTEn at operand '
          'positions, redundant parentheses) and every label leaf is symbolic; literal leaves from a catalogue of '
          'notations; malformed token sequences from a catalogue')
BOUNDS = {'label leaves': '|v| <= 2^16 (W=96) / |v| <= 2^6 (trees with / or %, W=64) / |v| <= 2^8 (byte extraction of a product or shift, W=48)',
          'shift counts': '0..12', 'divisors': 'non-zero (division by zero is not judged)',
          '% operands': 'judged for integer a >= 0, b > 0 only', 'literal spellings': 'catalogue (not symbolic)'}
ASSUMPTIONS = ['bitwise operators, shifts and byte extraction are judged on integer-valued operands only',
               'the reference value of a tree is computed in exact rational arithmetic and truncated toward zero once, '
               'at the end', 'inputs for which an intermediate result exceeds the bit-vector width are outside the claim']

PREC = {'&': 1, '|': 1, '^': 1, '<<': 2, '>>': 2, '+': 3, '-': 3, '*': 4, '/': 4, '%': 4}
OPS = list(PREC)
LITERALS = [('42', 42), ('$2A', 42), ('0x2a', 42), ('2AH', 42), ('%101010', 42), ('b101010', 42), ("'A'", 65),
            ('0', 0), ('255', 255), ('$ffff', 65535), ('0xFFFF', 65535), ('b0', 0), ('%1', 1), ("'0'", 48), ("' '", 32),
            ('007', 7), ('0FH', 15), ('$0', 0)]


# ---- trees: ('leaf', name) | ('lit', text, value) | ('neg', t) | ('lsb', t) | ('byte', n, t) | ('par', t) | (op, l, r)
def prec(t):
    k = t[0]
    if k in PREC:
        return PREC[k]
    if k == 'neg':
        return 5
    return 6


def render(t):
    k = t[0]
    if k == 'leaf':
        return t[1]
    if k == 'lit':
        return t[1]
    if k == 'par':
        return f'({render(t[1])})'
    if k == 'neg':
        inner = render(t[1])
        return f'-({inner})' if prec(t[1]) < 5 or t[1][0] == 'neg' else f'-{inner}'
    if k == 'lsb':
        return f'LSB({render(t[1])})'
    if k == 'byte':
        return f'BYTE{t[1]}({render(t[2])})'
    lt, rt = t[1], t[2]
    ls = render(lt)
    rs = render(rt)
    if prec(lt) < PREC[k]:
        ls = f'({ls})'
    if prec(rt) <= PREC[k] and rt[0] in PREC:
        rs = f'({rs})'
    return f'{ls} {k} {rs}'


def has_div(t):
    k = t[0]
    if k in ('leaf', 'lit'):
        return False
    if k in ('neg', 'lsb', 'par'):
        return has_div(t[1])
    if k == 'byte':
        return has_div(t[2])
    return k in ('/', '%') or has_div(t[1]) or has_div(t[2])


def shift_count_leaves(t, acc=None):
    """leaves that are used directly as a shift count (they get the range 0..12)"""
    acc = set() if acc is None else acc
    k = t[0]
    if k in ('leaf', 'lit'):
        return acc
    if k in ('<<', '>>'):
        c = t[2]
        while c[0] == 'par':
            c = c[1]
        if c[0] == 'leaf':
            acc.add(c[1])
    for c in t[1:]:
        if isinstance(c, (tuple, list)):
            shift_count_leaves(c, acc)
    return acc


def has_kind(t, kinds):
    if t[0] in kinds:
        return True
    return any(isinstance(c, (tuple, list)) and has_kind(c, kinds) for c in t[1:])


def sizing(t, small=False):
    """(bit-vector width, bound of the label leaves) chosen from the operators in the tree"""
    if small:
        return 48, 1 << 5
    if has_div(t):
        return 64, 1 << 6
    if has_kind(t, ('lsb', 'byte')) and has_kind(t, ('*', '<<')):
        return 48, 1 << 8
    return 96, 1 << 16


class Rat:
    """exact rational over bit-vector terms (reference side; written independently of the proxy)"""

    def __init__(self, n, d=None):
        self.n = n
        self.d = E.bvval(1) if d is None else d


def ref_eval(t, leaf, pre):
    """-> Rat ; `pre` collects the preconditions under which the statement defines the value"""
    k = t[0]
    if k == 'leaf':
        return Rat(leaf[t[1]])
    if k == 'lit':
        return Rat(E.bvval(t[2]))
    if k == 'par':
        return ref_eval(t[1], leaf, pre)
    if k == 'neg':
        a = ref_eval(t[1], leaf, pre)
        return Rat(-a.n, a.d)
    if k in ('lsb', 'byte'):
        a = ref_eval(t[-1], leaf, pre)
        pre.append(z3.SRem(a.n, a.d) == 0)
        n = 0 if k == 'lsb' else t[1]
        v = a.n / a.d
        return Rat((v >> E.bvval(8 * n)) & E.bvval(0xff))
    a = ref_eval(t[1], leaf, pre)
    b = ref_eval(t[2], leaf, pre)
    if k == '+':
        return Rat(a.n * b.d + b.n * a.d, a.d * b.d)
    if k == '-':
        return Rat(a.n * b.d - b.n * a.d, a.d * b.d)
    if k == '*':
        return Rat(a.n * b.n, a.d * b.d)
    if k == '/':
        pre.append(b.n != 0)
        return Rat(a.n * b.d, a.d * b.n)
    # the remaining operators are defined on integers
    pre.append(z3.SRem(a.n, a.d) == 0)
    pre.append(z3.SRem(b.n, b.d) == 0)
    x, y = a.n / a.d, b.n / b.d
    if k == '%':
        pre.append(z3.And(x >= 0, y > 0))
        return Rat(z3.URem(x, y))
    if k == '&':
        return Rat(x & y)
    if k == '|':
        return Rat(x | y)
    if k == '^':
        return Rat(x ^ y)
    pre.append(z3.And(y >= 0, y <= 12))
    if k == '<<':
        return Rat(x << y)
    return Rat(x >> y)


def neighbours(text):
    """texts that differ from `text` only in layout: parsed earlier in the same process they must not change the verdict
    on `text` (the parser keeps no state between calls)"""
    out = []
    for t in (''.join(text.split()), text.replace(' ', '  '), text.replace('(', '').replace(')', ''), text.upper(), text.lower(),
              text.rstrip('+-*/ #`$'), text + ' + 1', '(' + text + ')', text.replace(' ', '', 1)):
        if t != text and t not in out:
            out.append(t)
    return out + ['p + q', '12', '$10', '1<<2', 'p', '-p']


def warm_up(texts):
    from bespokeasm.expression import parse_expression
    from bespokeasm.assembler.line_identifier import LineIdentifier
    lid = LineIdentifier(3, 'earlier')
    for h in texts:
        try:
            parse_expression(lid, h)
        except E.EngineSignal:
            raise
        except BaseException as e:  # noqa
            if isinstance(e, (KeyboardInterrupt, GeneratorExit)):
                raise


class ExprShape(Shape):
    kind = 'UNIT'
    max_paths = 400
    solver_timeout_ms = 150000

    @property
    def width(self):
        return sizing(self.params['tree'], self.params.get('small'))[0]

    def setup(self, symbolic):
        if symbolic:
            from sx import shims
            shims.install()

    def expected_outcomes(self):
        return ['ok'] if self.sid.split(':')[0] in ('op1', 'op2', 'op3', 'hand', 'after-op1', 'after-hand', 'small', 'neg-mid', 'neg-first', 'neg-last', 'neg-mid-right') else []

    def _leaves(self):
        out = []

        def walk(t):
            if t[0] == 'leaf':
                if t[1] not in out:
                    out.append(t[1])
            else:
                for c in t[1:]:
                    if isinstance(c, (tuple, list)):
                        walk(c)
        walk(self.params['tree'])
        return out

    def run(self, env):
        from bespokeasm.expression import parse_expression
        from bespokeasm.assembler.label_scope import GlobalLabelScope
        from bespokeasm.assembler.line_identifier import LineIdentifier
        lid = LineIdentifier(7, 'expr')
        lim = sizing(self.params['tree'], self.params.get('small'))[1]
        scope = GlobalLabelScope(set())
        counts = shift_count_leaves(self.params['tree'])
        for nm in self._leaves():
            scope.set_label_value(nm, env.sym(nm, 0, 12) if nm in counts else env.sym(nm, -lim, lim), lid)
        text = self.params.get('text') or render(self.params['tree'])
        if self.params.get('history'):
            warm_up(neighbours(text))
        try:
            v = parse_expression(lid, text).get_value(scope, lid)
        except SystemExit as e:
            return ('exit', str(e.code)[:120])
        except E.EngineSignal:
            raise
        except BaseException as e:  # noqa  (SyntaxError, ZeroDivisionError, ValueError are outcomes)
            if isinstance(e, (KeyboardInterrupt, GeneratorExit)):
                raise
            return ('exc', type(e).__name__)
        return ('ok', v)

    def judge(self, env, out):
        tree = self.params['tree']
        leaf = {nm: env.z(nm) for nm in self._leaves()}
        pre = []
        r = ref_eval(tree, leaf, pre)
        defined = z3.And(*pre) if pre else z3.BoolVal(True)
        if out[0] == 'ok':
            pre.append(r.d != 0)
            return [('C07.value_equals_arithmetic_value', z3.Implies(z3.And(*pre), zv(out[1]) == r.n / r.d))]
        return [('C07.defined_expression_is_evaluated', z3.Not(defined))]

    def summarize(self, out, model):
        return {'kind': out[0], 'value': under(model, out[1]) if out[0] == 'ok' else None}

    def describe(self):
        return {'shape': self.sid, 'text': self.params.get('text') or render(self.params['tree'])}


class MalformedShape(Shape):
    kind = 'UNIT'
    width = 64

    def setup(self, symbolic):
        if symbolic:
            from sx import shims
            shims.install()

    def expected_outcomes(self):
        return []

    def run(self, env):
        from bespokeasm.expression import parse_expression
        from bespokeasm.assembler.label_scope import GlobalLabelScope
        from bespokeasm.assembler.line_identifier import LineIdentifier
        lid = LineIdentifier(7, 'expr')
        scope = GlobalLabelScope(set())
        for nm in ('p', 'q'):
            scope.set_label_value(nm, env.sym(nm, -100, 100), lid)
        if self.params.get('history'):
            warm_up(neighbours(self.params['text']))
        try:
            v = parse_expression(lid, self.params['text']).get_value(scope, lid)
        except SystemExit as e:
            return ('exit', str(e.code)[:120])
        except E.EngineSignal:
            raise
        except BaseException as e:  # noqa
            if isinstance(e, (KeyboardInterrupt, GeneratorExit)):
                raise
            return ('exc', type(e).__name__)
        return ('ok', v)

    def judge(self, env, out):
        return [('C07.malformed_text_is_rejected', z3.BoolVal(out[0] != 'ok'))]

    def summarize(self, out, model):
        return {'kind': out[0], 'value': under(model, out[1]) if out[0] == 'ok' else None}

    def describe(self):
        return {'shape': self.sid, 'text': self.params['text']}


MALFORMED = ['p +', '* p', 'p * / q', '(p + q', 'p + q)', 'p ~ q', 'p ~ + q', 'p $ q', '()', 'LSB(p', 'p q', '1 2', '+',
             '', 'p +* q', 'p + (q', ')p(', 'p & | q', 'p << << 2', 'p >> ', 'LSB()', 'p + @q', 'p ! q', '1 + 2 #', 'p, q',
             'p = q', '[p]', '{p}', 'p ? q', '"p"', "p ' q", 'BYTE1(p', '- - ', 'p -', '0x', '$', '%', '1 + $', 'p \\ q',
             'p + 2`', '1.5', 'p + 1.5', '1e3 +', '~p', '!p', 'p &&& q']

LEAVES = ['p', 'q', 'r', 's']


def trees(n_ops, rnd=None):
    """all operator trees with exactly n_ops binary operators over distinct leaves p,q,r,s (left/right shapes)"""
    out = []
    L = lambda i: ('leaf', LEAVES[i])  # noqa
    if n_ops == 1:
        for a in OPS:
            out.append((a, L(0), L(1)))
    elif n_ops == 2:
        for a, b in itertools.product(OPS, OPS):
            out.append((b, (a, L(0), L(1)), L(2)))      # (p a q) b r
            out.append((a, L(0), (b, L(1), L(2))))      # p a (q b r)
    elif n_ops == 3:
        for a, b, c in itertools.product(OPS, OPS, OPS):
            out.append((c, (b, (a, L(0), L(1)), L(2)), L(3)))
            out.append((a, L(0), (b, L(1), (c, L(2), L(3)))))
            out.append((b, (a, L(0), L(1)), (c, L(2), L(3))))
            out.append((c, (a, L(0), (b, L(1), L(2))), L(3)))
            out.append((a, L(0), (c, (b, L(1), L(2)), L(3))))
    return out


def decorate(t, rnd):
    """unary minus / byte extraction / redundant parentheses / literal at a random operand position"""
    def rec(x, depth):
        if x[0] == 'leaf':
            r = rnd.random()
            if r < 0.22:
                return ('neg', x)
            if r < 0.32:
                return ('lsb', x)
            if r < 0.40:
                return ('byte', rnd.choice([0, 1, 2]), x)
            if r < 0.50:
                lit = rnd.choice(LITERALS)
                return ('lit', lit[0], lit[1])
            if r < 0.56:
                return ('par', x)
            return x
        if x[0] in PREC:
            y = (x[0], rec(x[1], depth + 1), rec(x[2], depth + 1))
            r = rnd.random()
            if r < 0.10:
                return ('neg', y)
            if r < 0.17:
                return ('lsb', y)
            if r < 0.22:
                return ('par', y)
            return y
        return x
    return rec(t, 0)


def sane(t):
    """generator-side filter: keep trees on which the statement defines a value for a non-trivial set of inputs"""
    k = t[0]
    if k in ('leaf', 'lit'):
        return True
    if k in ('neg', 'par'):
        return sane(t[1])
    if k in ('lsb', 'byte'):
        return sane(t[-1]) and not has_div(t[-1])
    if k in ('&', '|', '^', '<<', '>>', '%'):
        if has_div(t[1]) or has_div(t[2]):
            return False
    if k in ('<<', '>>'):
        c = t[2]
        while c[0] == 'par':
            c = c[1]
        if c[0] not in ('leaf', 'lit') or (c[0] == 'lit' and c[2] > 12):
            return False
    return sane(t[1]) and sane(t[2])


def shapes(tier, seed):
    rnd = random.Random(77 + seed)
    S = []
    seen = set()

    def add(tag, t):
        if not sane(t):
            return
        txt = render(t)
        if txt in seen:
            return
        seen.add(txt)
        S.append(ExprShape(f'{tag}:{txt}', tree=t))
    for t in trees(1):
        add('op1', t)
    for lit in LITERALS:
        add('lit', ('+', ('lit', lit[0], lit[1]), ('leaf', 'p')))
        add('lit', ('lit', lit[0], lit[1]))
    for t in [('neg', ('leaf', 'p')), ('neg', ('neg', ('leaf', 'p'))), ('lsb', ('leaf', 'p')), ('byte', 1, ('leaf', 'p')),
              ('byte', 3, ('neg', ('leaf', 'p'))), ('+', ('neg', ('leaf', 'p')), ('leaf', 'q')),
              ('-', ('leaf', 'p'), ('neg', ('leaf', 'q'))), ('*', ('neg', ('leaf', 'p')), ('leaf', 'q')),
              ('neg', ('*', ('leaf', 'p'), ('leaf', 'q'))), ('+', ('lsb', ('leaf', 'p')), ('leaf', 'q')),
              ('*', ('leaf', 'p'), ('lsb', ('+', ('leaf', 'q'), ('leaf', 'r')))),
              ('/', ('*', ('leaf', 'p'), ('leaf', 'q')), ('leaf', 'r')), ('*', ('/', ('leaf', 'p'), ('leaf', 'q')), ('leaf', 'r')),
              ('/', ('leaf', 'p'), ('*', ('leaf', 'q'), ('leaf', 'r'))), ('/', ('/', ('leaf', 'p'), ('leaf', 'q')), ('leaf', 'r')),
              ('+', ('/', ('leaf', 'p'), ('leaf', 'q')), ('/', ('leaf', 'r'), ('leaf', 'q'))),
              ('neg', ('/', ('leaf', 'p'), ('leaf', 'q'))), ('/', ('neg', ('leaf', 'p')), ('leaf', 'q')),
              ('par', ('par', ('+', ('leaf', 'p'), ('leaf', 'q'))))]:
        add('hand', t)
    P, Q, R = ('leaf', 'p'), ('leaf', 'q'), ('leaf', 'r')
    for o1 in ('*', '/', '%', '+', '-', '<<', '&'):
        for o2 in ('*', '/', '%', '+', '-', '>>', '|'):
            add('neg-mid', (o2, (o1, P, ('neg', Q)), R))          # p o1 -q o2 r
            add('neg-first', (o2, (o1, ('neg', P), Q), R))        # -p o1 q o2 r
            add('neg-last', (o2, (o1, P, Q), ('neg', R)))         # p o1 q o2 -r
            add('neg-mid-right', (o1, P, (o2, ('neg', Q), R)))    # p o1 (-q o2 r)
    t2 = trees(2)
    if tier == 'quick':
        rnd.shuffle(t2)
        t2 = t2[:110]
    for t in t2:
        add('op2', t)
    for t in (t2 if tier != 'quick' else t2[:50]):
        add('dec2', decorate(t, rnd))
    if tier != 'quick':
        t3 = trees(3)
        rnd.shuffle(t3)
        for t in t3[:4000]:
            add('op3', t)
        for t in t3[4000:5500]:
            add('dec3', decorate(t, rnd))
    for i, txt in enumerate(MALFORMED):
        S.append(MalformedShape(f'malformed:{i}:{txt}', text=txt))
    # quotients that feed another operator, leaves |v| <= 32: if the evaluator goes through binary floating point the
    # solver has to reason in QF_FP, which it does in seconds only for operands this small
    S4 = ('leaf', 's')
    for t in [('+', ('/', P, Q), ('/', R, Q)), ('-', ('/', P, Q), ('/', R, Q)), ('+', ('/', P, Q), ('/', R, S4)),
              ('*', ('/', P, Q), R), ('-', ('/', P, Q), R)]:
        S.insert(0, ExprShape('small:' + render(t), tree=t, small=True))
    # expressions where the assembler itself rewrites the text before parsing it: the offset of `[reg - text]` is
    # `0 - text` as a whole (left-associative: `[sp - 4 + 1]` is -3)
    from .isa_templates import instr_shapes
    S += [sh for sh in instr_shapes(tier, seed, ['C07'], only=('t4:0:', 't4:1:', 't4:2:', 't4:3:', 't4:4:'))
          if not sh.params.get('context') and not sh.params.get('prelude')]
    # the verdict on a text does not depend on what was parsed before it in the same run
    for i, txt in enumerate(MALFORMED):
        S.append(MalformedShape(f'malformed-after:{i}:{txt}', text=txt, history=True))
    for sh in list(S):
        if sh.sid.split(':')[0] in ('op1', 'hand'):
            S.append(ExprShape('after-' + sh.sid, tree=sh.params['tree'], history=True))
    return S
