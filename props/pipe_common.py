"""PIPE shapes: the whole real `Assembler.assemble_bytecode` on a concrete program/ISA skeleton with symbolic
integers injected through predefined constants, ISA dictionary leaves and the window arguments."""
from __future__ import annotations

import copy
import os

import z3

from sx import engine as E
from sx.harness import Shape, under, zv
from sx.pipe import PipeCase, Sym, Outcome, line_infos, _patch_capture, _captured_lines, _reset_defaults


def base_config(endian='big', address_size=16, registers=('ra', 'rb'), **general):
    g = {'address_size': address_size, 'endian': endian, 'registers': list(registers), 'min_version': '0.4.0'}
    g.update(general)
    return {
        'description': 'sx shape',
        'general': g,
        'operand_sets': {
            'imm8': {'operand_values': {'n': {'type': 'numeric', 'argument': {'size': 8, 'byte_align': True}}}},
        },
        'instructions': {
            'nop': {'bytecode': {'value': 0, 'size': 8}},
            'ld8': {'bytecode': {'value': 0x10, 'size': 8}, 'operands': {'count': 1, 'operand_sets': {'list': ['imm8']}}},
        },
    }


def add_constants(cfg, consts: dict):
    """consts: name -> (lo, hi) symbolic, or int concrete"""
    pre = cfg.setdefault('predefined', {})
    lst = pre.setdefault('constants', [])
    for name, rng in consts.items():
        if isinstance(rng, tuple):
            lst.append({'name': name, 'value': Sym(name, rng[0], rng[1])})
        else:
            lst.append({'name': name, 'value': rng})
    return cfg


class PipeShape(Shape):
    """params: config, files, main, start, end, fill, pretty, include_dirs, predefined"""
    kind = 'PIPE'
    width = 48
    max_paths = 3000
    use_cli = True

    def setup(self, symbolic):
        p = self.params
        self.case = PipeCase(p['config'], p['files'], p.get('main', 'main.asm'), p.get('start', 0), p.get('end'),
                             p.get('fill', 0), p.get('pretty'), p.get('include_dirs', ()), p.get('predefined', ()),
                             p.get('binary', True))
        self.case.prepare()
        self.symbolic = symbolic

    def teardown(self):
        if getattr(self, 'case', None):
            self.case.cleanup()

    def declare(self, env):
        for name, s in sorted(self.case.symbols().items()):
            env.sym(s.name, s.lo, s.hi)

    def run(self, env):
        self.declare(env)
        self.preconditions(env)
        if env.symbolic:
            return self.case.run_symbolic(env.ctx)
        return self.run_concrete_api(env.model)

    def preconditions(self, env):
        pass

    def run_concrete_api(self, model) -> Outcome:
        """Unshimmed run through the Python API on concrete files (real ints, real bytearray, real yaml)."""
        import bespokeasm.assembler.engine as eng
        import contextlib
        import io
        from sx import shims
        assert not shims._installed
        _patch_capture()
        shims.reset_globals()
        _reset_defaults()
        _captured_lines['top'] = None
        _captured_lines['predef'] = []
        case = self.case
        case.write_concrete(model, case.workdir)
        val = lambda x: model.get(x.name, x.lo or 0) if isinstance(x, Sym) else x  # noqa
        outp = os.path.join(case.workdir, 'out.bin')
        if os.path.exists(outp):
            os.remove(outp)
        buf = io.StringIO()
        kind, msg = 'ok', ''
        try:
            with contextlib.redirect_stdout(buf):
                import bespokeasm.__main__ as cli
                # same entry point as the symbolic run and the command line: the real `compile` command callback
                cli.compile.callback(
                    asm_file=os.path.join(case.workdir, case.main), config_file=os.path.join(case.workdir, 'isa.yaml'),
                    binary=case.binary, output_file=outp, binary_min_address=int(val(case.start)),
                    binary_max_address=(-1 if case.end is None else int(val(case.end))), binary_fill=val(case.fill),
                    pretty_print=case.pretty is not None, pretty_print_format=case.pretty or 'listing',
                    pretty_print_output='stdout', verbose=0,
                    include_path=tuple(os.path.join(case.workdir, d) for d in case.include_dirs),
                    macro_symbol=tuple(case.concrete_predefined(model)))
        except SystemExit as e:
            kind, msg = 'exit', str(e.code)
        except Exception as e:  # noqa
            kind, msg = 'exc', f'{type(e).__name__}: {e}'
        image = list(open(outp, 'rb').read()) if os.path.exists(outp) else None
        o = Outcome(kind, msg, image, 1 if image is not None else 0, stdout=buf.getvalue())
        if kind == 'ok' and _captured_lines['top'] is not None:
            o.lines = line_infos(list(_captured_lines['top']) + list(_captured_lines['predef']))
        return o

    def summarize(self, out, model):
        return {'kind': out.kind, 'image': None if out.image is None else [under(model, b) & 0xff for b in out.image]}

    def cli_summary(self, model):
        if not self.use_cli:
            return None
        o = self.case.run_cli(model)
        d = {'kind': o.kind, 'image': o.image}
        if self.params.get('also_json'):
            j = self.case.run_cli(model, config_json=True)      # the same definition written as JSON
            d['json_run'] = {'kind': j.kind, 'image': j.image}
        return d

    def cli_agrees(self, summary, cli):
        return summary['kind'] == cli['kind'] and summary['image'] == cli['image']

    def judge_cli(self, summary, cli):
        """C14 at the level where it is stated - the command line: exit status versus the image file"""
        extra = {}
        if cli.get('json_run') is not None:
            extra[f"{self.params.get('props', ['C19'])[0]}.definition_written_as_json_is_treated_like_the_yaml_one"] = \
                (cli['json_run']['kind'], cli['json_run']['image']) == (cli['kind'], cli['image'])
        if 'C14' not in self.params.get('props', []):
            return extra
        binary = self.params.get('binary', True)
        return {
            'C14.command_line_does_not_report_success_when_assembly_failed': not (cli['kind'] == 'ok' and summary['kind'] != 'ok'),
            'C14.image_exists_when_the_command_line_reports_success': not (cli['kind'] == 'ok' and binary and cli['image'] is None
                                                                             and summary['image'] is not None),
            'C14.no_image_when_the_command_line_reports_failure': not (cli['kind'] != 'ok' and cli['image'] is not None),
            **extra,
        }

    def write_replay(self, model, dest):
        self.case.write_concrete(model, dest)

    def describe(self):
        p = self.params
        return {'shape': self.sid, 'files': p['files'], 'start': repr(p.get('start', 0)), 'end': repr(p.get('end')),
                'fill': repr(p.get('fill', 0))}

    def known_namespace(self):
        return {}


# ---- small expression ASTs used by shape generators: rendered to assembly text and evaluated by the oracle ----
def render(ast):
    t = ast[0]
    if t == 'v' or t == 'lbl':
        return ast[1]
    if t == 'c':
        return str(ast[1]) if ast[1] >= 0 else f'(0-{-ast[1]})'
    if t in ('+', '-', '*', '&', '|', '^', '<<', '>>'):
        return f'({render(ast[1])} {t} {render(ast[2])})'
    if t == 'neg':
        return f'(0 - {render(ast[1])})'
    if t == 'lsb':
        return f'LSB({render(ast[1])})'
    if t == 'byte':
        return f'BYTE{ast[1]}({render(ast[2])})'
    raise ValueError(ast)


def evaluate(ast, env, labels):
    """Reference value of an AST as a z3 term: exact integer arithmetic (no wrap within the stated bounds)."""
    t = ast[0]
    if t == 'v':
        try:
            return env.z(ast[1])
        except KeyError:
            if ast[1] in labels:          # a predefined constant with a concrete value
                return zv(labels[ast[1]])
            raise
    if t == 'lbl':
        return zv(labels[ast[1]])
    if t == 'c':
        return E.bvval(ast[1])
    if t == 'neg':
        return -evaluate(ast[1], env, labels)
    if t == 'lsb':
        return evaluate(ast[1], env, labels) & E.bvval(0xff)
    if t == 'byte':
        return z3.LShR(evaluate(ast[2], env, labels), E.bvval(8 * ast[1])) & E.bvval(0xff) \
            if False else ((evaluate(ast[2], env, labels) >> E.bvval(8 * ast[1])) & E.bvval(0xff))
    a, b = evaluate(ast[1], env, labels), evaluate(ast[2], env, labels)
    return {'+': lambda: a + b, '-': lambda: a - b, '*': lambda: a * b, '&': lambda: a & b, '|': lambda: a | b,
            '^': lambda: a ^ b, '<<': lambda: a << b, '>>': lambda: a >> b}[t]()
