"""C03 - the binary image is a faithful window onto the assembled memory map (PIPE, symbolic window)."""
from __future__ import annotations

from sx.pipe import Sym
from sx.shims import STUBS  # noqa
from .layout import LayoutShape

ID = 'C03'
BUDGET_S = {'quick': 170, 'thorough': 3600}
SHAPE_WALL_S = {'quick': 150, 'thorough': 3600}
FAMILY = ('PIPE: sparse programs (<= 6 byte-producing lines of length 1..5, gaps via .org, a zone, a muted region, '
          'a predefined data block, trailing label / .org) with concrete placement; window start, end (or none) '
          'and fill symbolic, data bytes symbolic; plus symbolic placement against a concrete window')
BOUNDS = {'addresses': '0..24 (quick) / 0..40 (thorough)', 'window start/end': 'same range +4', 'fill': '-300..300',
          'data bytes': '0..255', 'bitvector_width': 24}
ASSUMPTIONS = ['the fill option is reduced modulo 256 (the CLI accepts any integer)',
               'window start >= 0 (CLI default 0; negative start is outside the claim)']

V = lambda n: ('v', n)      # noqa
L = lambda n: ('lbl', n)    # noqa
C = lambda n: ('c', n)      # noqa
D = {f'd{i}': (0, 255) for i in range(6)}


def mk(sid, prog, hi, end='sym', consts=None, start=None, width=24, files=None, **cfg):
    cs = dict(D)
    cs.update(consts or {})
    cfgargs = dict(consts=cs, **cfg)
    allfiles = {'main.asm': prog}
    allfiles.update(files or {})
    p = dict(prog=allfiles, cfgargs=cfgargs, props=['C03', 'C14'], binary=True, width=width,
             start=start if start is not None else Sym('ws', 0, hi), fill=Sym('wf', -300, 300), expect=['ok'])
    if end == 'sym':
        p['end'] = Sym('we', 0, hi)
    elif end is not None:
        p['end'] = end
    return LayoutShape(sid, **p)


def shapes(tier, seed):
    hi = 14 if tier == 'quick' else 30
    far = 9 if tier == 'quick' else 20
    S = []
    one = [('org', C(4), None), ('data', '.byte', [V('d0'), V('d1'), V('d2'), V('d3')])]
    S.append(mk('one-line:end', one, hi))
    S.append(mk('one-line:noend', one, hi, end=None))
    two = [('org', C(2), None), ('data', '.2byte', [V('d0')]), ('org', C(far), None), ('label', 'x'),
           ('data', '.byte', [V('d1'), V('d2'), ('lsb', L('x'))])]
    S.append(mk('two-lines-gap:end', two, hi))
    S.append(mk('two-lines-gap:noend', two, hi, end=None))
    S.append(mk('trailing-label-and-org:noend',
                [('data', '.byte', [V('d0'), V('d1')]), ('label', 'end'), ('org', C(far), None), ('label', 'far')],
                hi, end=None))
    S.append(mk('muted-middle:end',
                [('org', C(1), None), ('data', '.byte', [V('d0')]), ('mute',), ('data', '.byte', [V('d1'), V('d2')]),
                 ('unmute',), ('data', '.byte', [V('d3')])], hi if tier != 'quick' else 8))
    S.append(mk('muted-middle:noend',
                [('org', C(1), None), ('data', '.byte', [V('d0')]), ('mute',), ('data', '.byte', [V('d1'), V('d2')]),
                 ('unmute',), ('data', '.byte', [V('d3')]), ('mute',), ('data', '.byte', [V('d4')])], hi, end=None))
    # a muted region that crosses an #include in both directions: muted bytes never reach the image
    S.append(mk('muted-across-include:end',
                [('org', C(1), None), ('data', '.byte', [V('d0')]), ('mute',), ('data', '.byte', [V('d1')]), ('include', 'inc.asm'),
                 ('data', '.byte', [V('d2')]), ('unmute',), ('data', '.byte', [V('d3')])], hi if tier != 'quick' else 10,
                files={'inc.asm': [('data', '.byte', [V('d4')]), ('instr', 'nop', None)]}))
    S.append(mk('mute-opened-in-include:noend',
                [('org', C(1), None), ('data', '.byte', [V('d0')]), ('include', 'inc.asm'), ('data', '.byte', [V('d2')]), ('unmute',),
                 ('data', '.byte', [V('d3')])], hi, end=None,
                files={'inc.asm': [('data', '.byte', [V('d4')]), ('mute',), ('data', '.byte', [V('d1')])]}))
    # an #unmute with nothing muted changes nothing: the muted region after it stays out of the image
    S.append(mk('stray-unmute-before-muted-region:end',
                [('unmute',), ('org', C(1), None), ('data', '.byte', [V('d0')]), ('mute',), ('data', '.byte', [V('d1'), V('d2')]),
                 ('unmute',), ('data', '.byte', [V('d3')])], hi if tier != 'quick' else 9))
    S.append(mk('surplus-unmute-in-include:noend',
                [('org', C(1), None), ('data', '.byte', [V('d0')]), ('include', 'inc.asm'), ('mute',), ('data', '.byte', [V('d1')]),
                 ('unmute',), ('data', '.byte', [V('d3')]), ('mute',), ('data', '.byte', [V('d2')])], hi, end=None,
                files={'inc.asm': [('mute',), ('data', '.byte', [V('d4')]), ('unmute',), ('unmute',), ('unmute',)]}))
    # the window is what the options say, also beyond the address space / beyond a redefined GLOBAL zone
    S.append(mk('window-beyond-address-space:end', [('org', C(4), None), ('data', '.byte', [V('d0'), V('d1')]), ('org', C(13), None),
                                                     ('data', '.byte', [V('d2'), V('d3')])], 40, address_bits=4))
    S.append(mk('window-beyond-redefined-global:end', [('org', C(4), None), ('data', '.byte', [V('d0'), V('d1')])], 30,
                global_zone=(2, 9), origin=2))
    S.append(mk('predef-block-and-zone:end',
                [('instr', 'nop', None), ('memzone', 'Z'), ('data', '.byte', [V('d0'), V('d1')]),
                 ('memzone', 'GLOBAL'), ('instr', 'ld8', ('lsb', V('d2')))], hi if tier != 'quick' else 12,
                zones={'Z': (far - 2, far + 3)}, data_blocks=[('blk', 5, 2, Sym('bv', 0, 255))]))
    S.append(mk('fill-lines:noend',
                [('org', C(3), None), ('fill', C(3), V('d0')), ('zero', C(0)), ('instr', 'nib', None),
                 ('org', C(far - 1), None), ('zero', C(2))], hi, end=None))
    S.append(mk('empty-program-bytes:end', [('label', 'a'), ('org', C(5), None), ('label', 'b')], 8))
    S.append(mk('empty-program-bytes:noend', [('label', 'a'), ('org', C(5), None), ('label', 'b')], 8, end=None))
    # symbolic placement against a concrete window: every straddling position of a 3-byte and a 2-byte line
    S.append(mk('sym-placement:window-6-11',
                [('org', V('a1'), None), ('data', '.byte', [V('d0'), V('d1'), V('d2')]),
                 ('org', ('+', V('a1'), V('gap')), None), ('data', '.2byte', [V('d3')])],
                hi, end=11, start=6, consts={'a1': (0, 12), 'gap': (3, 7)}))
    # seeded random sparse programs: concrete placement (origin and .org constants), symbolic window / fill / data
    import random
    from . import c02
    rnd = random.Random(300 + seed)
    for i in range(20 if tier == 'quick' else 800):
        prog, syms = c02.random_program(rnd, rnd.randint(4, 8), rich_branches=False)
        out = []
        for st in prog:
            if st[0] == 'org':
                st = ('org', C(rnd.randint(0, far + 4)), None)
            if st[0] == 'align':
                st = ('align', C(rnd.choice([2, 4, 3])))
            if st[0] in ('fill', 'zero') and st[1][0] == 'v':
                st = (st[0], C(rnd.randint(0, 3))) + tuple(st[2:])
            out.append(st)
        consts = {k: c02.SYMS[k] for k in syms if k in ('v2',)}
        end = rnd.choice(['sym', 'sym', None])
        S.append(mk(f'rnd:{seed}:{i}:{"end" if end else "noend"}', out, hi, end=end, consts=consts, origin=rnd.randint(0, 6), width=40))
        S[-1].params['expect'] = []
    return S
