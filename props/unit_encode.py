"""UNIT harness: real `AssembledInstruction.__init__/get_bytes` + `PackedBits.append_bits` + `NumericByteCodePart`
on a list of fields whose *values* are symbolic.  Serves C01 (bytes = prescribed bit layout) and C12 (a value
is accepted iff it fits the signed-or-unsigned range of its field width)."""
from __future__ import annotations

import itertools
import random

import z3

from sx import engine as E
from sx.harness import Shape, under, zv
from . import oracles as O


class FieldsShape(Shape):
    kind = 'UNIT'
    width = 96
    max_paths = 4000

    def setup(self, symbolic):
        if symbolic:
            from sx import shims
            shims.install()

    def expected_outcomes(self):
        return ['ok', 'exit']

    def run(self, env):
        import bespokeasm.assembler.bytecode.assembled as asm
        from bespokeasm.assembler.bytecode.parts import NumericByteCodePart
        from bespokeasm.assembler.line_identifier import LineIdentifier
        lid = LineIdentifier(1, 'unit')
        layout = self.params['layout']
        vals = []
        for i, (size, al, en) in enumerate(layout):
            vals.append(env.sym(f'v{i}', -(1 << (size + 1)), (1 << (size + 2))))
        parts = [NumericByteCodePart(v, size, al, en, lid) for v, (size, al, en) in zip(vals, layout)]
        ai = asm.AssembledInstruction(lid, parts)
        try:
            b = ai.get_bytes(None, 0, ai.byte_size)
        except SystemExit as e:
            return ('exit', str(e.code)[:100], None, ai.byte_size)
        except Exception as e:  # noqa
            return ('exc', f'{type(e).__name__}: {e}'[:100], None, ai.byte_size)
        if b is None:
            return ('none', '', None, ai.byte_size)
        return ('ok', '', list(b), ai.byte_size)

    def judge(self, env, out):
        layout = self.params['layout']
        vs = [env.z(f'v{i}') for i in range(len(layout))]
        inrange = z3.And(*[O.in_field_range(v, size) for v, (size, al, en) in zip(vs, layout)])
        kind = out[0]
        want = self.params.get('props', ['C01', 'C12'])
        obl = []
        if kind == 'ok':
            ref = O.encode_fields([(v, size, al, en) for v, (size, al, en) in zip(vs, layout)])
            if 'C01' in want:
                obl.append(('C01.length_equals_reserved_size', zv(out[3]) == E.bvval(len(ref))))
                obl.append(('C01.bytes_equal_bit_layout', z3.Implies(inrange, O.bytes_equal(out[2], ref))))
            if 'C12' in want:
                obl.append(('C12.accepted_implies_in_field_range', inrange))
        elif kind == 'exit':
            if 'C12' in want:
                obl.append(('C12.rejected_implies_out_of_field_range', z3.Not(inrange)))
            if 'C01' in want:
                obl.append(('C01.in_range_statement_is_assembled', z3.Not(inrange)))
        else:
            obl.append((f'{want[0]}.no_crash_or_silent_none', z3.BoolVal(False)))
        return obl

    def summarize(self, out, model):
        return {'kind': out[0], 'bytes': None if out[2] is None else [under(model, b) for b in out[2]],
                'size': under(model, out[3])}


SIZES_EDGE = [1, 3, 4, 7, 8, 9, 12, 15, 16, 17, 24, 31, 32, 33, 63, 64]


def layouts(tier, seed, props):
    rnd = random.Random(seed)
    out = []
    # every single-field size 1..64 x endian x alignment
    for size in range(1, 65):
        for en in ('big', 'little'):
            out.append([(size, False, en)])
    # pairs: a leading field that leaves every bit offset, then a field of every edge size
    pairs = []
    for lead in (1, 3, 4, 5, 7, 8, 12):
        for size in SIZES_EDGE:
            for en in ('big', 'little'):
                for al in (False, True):
                    pairs.append([(lead, False, 'big'), (size, al, en)])
    triples = []
    for a, b, c in itertools.product([3, 4, 8, 9, 12], [1, 5, 8, 12, 16, 33], [2, 4, 8, 11, 24, 64]):
        for en in ('big', 'little'):
            for al in ((False, False), (True, False), (False, True)):
                triples.append([(a, False, 'big'), (b, al[0], en), (c, al[1], 'little' if en == 'big' else 'big')])
    if tier == 'quick':
        rnd.shuffle(pairs)
        rnd.shuffle(triples)
        out += pairs[:120] + triples[:40]
    else:
        out += pairs + triples
        for _ in range(600):
            n = rnd.choice([2, 3, 4])
            out.append([(rnd.randint(1, 64), rnd.random() < 0.4, rnd.choice(['big', 'little'])) for _ in range(n)])
    shapes = []
    for lay in out:
        sid = 'fields:' + '+'.join(f'{s}{"A" if a else ""}{e[0]}' for s, a, e in lay)
        shapes.append(FieldsShape(sid, layout=[list(x) for x in lay], props=props))
    return shapes
