"""C16 - all output formats describe the same memory contents as the binary image (PIPE with -p; symbolic bytes and
addresses are rendered as opaque width-preserving tokens that decode back to their z3 terms)."""
from __future__ import annotations

import random
import re

import z3

from sx import engine as E
from sx.harness import zv, under
from sx.pipe import Sym
from sx.shims import STUBS  # noqa
from .layout import LayoutShape, IGNORED_CLASSES
from .refasm import LE, LT, GE, EQ, AND, OR, ITE
from . import c02

ID = 'C16'
BUDGET_S = {'quick': 170, 'thorough': 3600}
SHAPE_WALL_S = {'quick': 100, 'thorough': 600}
FAMILY = ('PIPE with pretty printing: seeded programs (sparse maps via .org, lines longer than 6 bytes, an included file, muted '
          'regions, zero-length lines, labels, constants) x formats {listing, minhex, hex, intel_hex} x address widths '
          '{8, 12, 16, 24, 32}; data bytes and the origin symbolic')
BOUNDS = {'origin': 'symbolic within the address space', 'data values': '|v| < 2^20', 'programs': 'seeded random + hand-written'}
ASSUMPTIONS = ['byte -> hex digit rendering is not judged (opaque tokens); for hex / intel_hex the (address, bytes) calls handed '
               'to the third-party intelhex writer are compared (the writer itself is trusted); the concrete replay decodes '
               'the real files', 'the window [origin, highest emitted address] holds every emitted byte of the family']

V = lambda n: ('v', n)      # noqa
C = lambda n: ('c', n)      # noqa
L = lambda n: ('lbl', n)    # noqa


def cells(text):
    """split a run of byte cells ('0a', token, '--') -> list of int | z3 term | None"""
    out = []
    toks = {a: (b, e) for a, b, e, _ in E.decode_tokens(text)}
    i = 0
    while i < len(text):
        ch = text[i]
        if ch.isspace():
            i += 1
            continue
        if i in toks:
            end, term = toks[i]
            out.append(term)
            i = end
            continue
        m = re.match(r'[0-9a-fA-F]{2}|--', text[i:])
        if not m:
            raise ValueError(f'undecodable cell at {i}: {text[i:i + 8]!r}')
        out.append(None if m.group(0) == '--' else int(m.group(0), 16))
        i += 2
    return out


def number(text):
    """hex number or a single token -> int | z3 term"""
    t = text.strip()
    toks = E.decode_tokens(t)
    if toks:
        if len(toks) != 1 or toks[0][0] != 0 or toks[0][1] != len(t):
            raise ValueError(f'mixed address text {t!r}')
        return toks[0][2]
    return int(t, 16)


def decode_listing(text):
    """-> rows [(file, line_no, addr|None, [bytes])]"""
    rows = []
    cur = None
    for ln in text.splitlines():
        if ln.startswith('File: '):
            cur = ln[6:].strip().split('/')[-1]
            continue
        parts = ln.split('| ')
        if len(parts) < 4 or set(ln.strip()) <= set('-+'):
            continue
        head = parts[0].rstrip(' |').strip()
        if head == 'line':
            continue
        addr_txt = parts[1].rstrip(' |').strip() if len(parts) > 1 else ''
        bytes_txt = parts[2]
        if head == '' and rows:
            rows[-1][3].extend(cells(bytes_txt))
            continue
        if not head.isdigit():
            continue
        rows.append([cur, int(head), number(addr_txt) if addr_txt else None, cells(bytes_txt)])
    return rows


def decode_minhex(text):
    """-> [(addr, byte)] with addr = marker + running offset (int | z3 term)"""
    out = []
    base, off = 0, 0
    for ln in text.splitlines():
        if not ln.strip():
            continue
        if ln.startswith(':'):
            for c in cells(ln[1:]):
                out.append((zv(base) + E.bvval(off), c))
                off += 1
        elif re.fullmatch(r'[0-9a-fA-F]+', ln.strip()) or (E.decode_tokens(ln.strip()) and len(ln.strip()) <= 16):
            base, off = number(ln), 0
    return out


def decode_ihex(text):
    out = []
    upper = 0
    for ln in text.splitlines():
        ln = ln.strip()
        if not ln.startswith(':'):
            continue
        raw = bytes.fromhex(ln[1:])
        n, addr, typ = raw[0], (raw[1] << 8) | raw[2], raw[3]
        data = raw[4:4 + n]
        if typ == 0:
            for i, b in enumerate(data):
                out.append((E.bvval(upper + addr + i), b))
        elif typ == 4:
            upper = ((data[0] << 8) | data[1]) << 16
        elif typ == 2:
            upper = ((data[0] << 8) | data[1]) << 4
    return out


def decode_hexdump(text):
    out = []
    for ln in text.splitlines():
        m = re.match(r'^([0-9A-Fa-f]+)\s+((?:(?:[0-9A-Fa-f]{2}|--)\s+){16})', ln)
        if not m:
            continue
        base = int(m.group(1), 16)
        for i, c in enumerate(cells(m.group(2))):
            if c is not None:
                out.append((E.bvval(base + i), c))
    return out


def lookup(entries, a, default):
    res = default
    for addr, b in reversed(entries):
        res = ITE(EQ(a, zv(addr)), zv(b) & E.bvval(0xff), res)
    return res


class PrettyShape(LayoutShape):
    """params as LayoutShape + pretty=<format>"""

    def expected_outcomes(self):
        return ['ok']

    def summarize(self, out, model):
        d = super().summarize(out, model)
        return d

    def entries(self, out, concrete):
        fmt = self.params['pretty']
        if fmt == 'listing':
            ent = []
            for f, n, addr, bs in decode_listing(out.stdout):
                for i, b in enumerate(bs):
                    ent.append((zv(addr) + E.bvval(i), b))
            return ent
        if fmt == 'minhex':
            return decode_minhex(out.stdout)
        if concrete:
            return decode_ihex(out.stdout) if fmt == 'intel_hex' else decode_hexdump(out.stdout)
        ent = []
        for addr, data in getattr(out, 'intelhex', []):
            for i, b in enumerate(data):
                ent.append((zv(addr) + E.bvval(i), b))
        return ent

    def judge(self, env, out):
        if out.kind != 'ok':
            return [('C16.program_is_assembled_and_printed', z3.BoolVal(False))]
        fmt = self.params['pretty']
        try:
            ent = self.entries(out, not env.symbolic)
        except ValueError as e:
            return [(f'C16.{fmt}.output_is_decodable', z3.BoolVal(False))]
        start = self._term(env, self.params['start'])
        img = out.image or []
        obl = []
        fill = E.bvval(0x100)       # impossible byte: "no entry"
        same = [zv(b) & E.bvval(0xff) == lookup(ent, start + E.bvval(o), fill) for o, b in enumerate(img)]
        # fill bytes of the image (gaps) have no entry: they are the image's zero fill and must be absent from the format
        ref = self.ref(env)
        gaps = []
        for o, b in enumerate(img):
            a = start + E.bvval(o)
            emitted = OR(*[AND(GE(a, r.addr), LT(a, r.addr + r.size)) for r in ref.byte_recs()])
            hit = lookup(ent, a, fill)
            gaps.append(ITE(emitted, zv(b) & E.bvval(0xff) == hit, hit == fill))
        obl.append((f'C16.{fmt}.every_image_byte_is_described_and_gaps_are_not', AND(*gaps)))
        if self.params.get('fill') is not None:
            # where no format describes a byte the image holds the fill option, nothing else
            wfill = self._term(env, self.params['fill']) & E.bvval(0xff)
            plain = []
            for o, b in enumerate(img):
                a = start + E.bvval(o)
                emitted = OR(*[AND(GE(a, r.addr), LT(a, r.addr + r.size)) for r in ref.byte_recs()])
                plain.append(OR(emitted, zv(b) & E.bvval(0xff) == wfill))
            obl.append((f'C16.{fmt}.image_bytes_that_no_format_describes_are_fill', AND(*plain)))
        if not self.params.get('window_cuts_the_program'):
            inside = [AND(GE(zv(a), start), LT(zv(a), start + E.bvval(len(img)))) for a, _ in ent]
            obl.append((f'C16.{fmt}.nothing_outside_the_image_is_described', AND(*inside)))
        if fmt == 'listing':
            rows = decode_listing(out.stdout)
            per = {}
            for f, n, addr, bs in rows:
                per.setdefault((f, n), []).append((addr, bs))
            once, same_line = [], []
            for li in out.lines:
                if not li.compilable or li.cls in IGNORED_CLASSES or li.cls == 'PredefinedDataLine':
                    continue
                got = per.get((li.file, li.line_num), [])
                if li.is_muted:
                    once.append(z3.BoolVal(len(got) == 0))
                    continue
                once.append(z3.BoolVal(len(got) == 1))
                if len(got) == 1:
                    addr, bs = got[0]
                    same_line.append(EQ(zv(addr), zv(li.address)) if addr is not None else z3.BoolVal(False))
                    lb = li.bytes or []
                    same_line.append(z3.BoolVal(len(bs) == len(lb)))
                    same_line += [zv(x) & E.bvval(0xff) == zv(y) & E.bvval(0xff) for x, y in zip(bs, lb)]
            obl.append(('C16.listing.each_assembled_statement_is_listed_once_and_muted_ones_not', AND(*once)))
            obl.append(('C16.listing.listed_address_and_bytes_are_those_of_the_statement', AND(*same_line)))
        return obl

    def cli_agrees(self, summary, cli):
        return summary['kind'] == cli['kind'] and summary['image'] == cli['image']

    def run_concrete_api(self, model):
        # the real CLI output is what must be decoded: run the API for the line table, then take stdout from it
        o = super().run_concrete_api(model)
        return o


def program(rnd, i):
    prog, syms = c02.random_program(rnd, rnd.randint(5, 10), rich_branches=False)
    prog = [st for st in prog if st[0] != 'org']
    prog = [('align', C(4)) if st[0] == 'align' and st[1][0] == 'c' and st[1][1] > 8 else st for st in prog]
    extra = rnd.choice(['long', 'gap', 'zero', 'none', 'long-gap'])
    if 'long' in extra:
        prog.insert(rnd.randint(0, len(prog)), ('data', '.byte', [('lsb', V('v2'))] + [C(k) for k in range(1, 9)]))
        syms = sorted(set(syms + ['v2']))
    if 'gap' in extra:
        prog.insert(rnd.randint(1, len(prog)), ('org', ('+', V('o0'), C(0x30)), None))
    if extra == 'zero':
        prog.insert(rnd.randint(0, len(prog)), ('zero', C(0)))
    return prog, [s for s in syms if s != 'v1']


def shapes(tier, seed):
    rnd = random.Random(1600 + seed)
    S = []
    fmts = ['listing', 'minhex', 'hex', 'intel_hex']
    n = 10 if tier == 'quick' else 150
    for i in range(n):
        prog, syms = program(rnd, i)
        bits = [8, 12, 16, 24, 32][i % 5]
        hi = (1 << bits) - 0x100
        if bits > 16:
            # no 16-bit address operands above 64 KiB: use data references instead
            prog = [('data', '.4byte', [st[2]]) if st[0] == 'instr' and st[1] == 'ld16' else st for st in prog]
        if bits < 16:
            prog = [('data', '.2byte', [st[2]]) if st[0] == 'instr' and st[1] == 'ld16' else st for st in prog]
        consts = {k: c02.SYMS[k] for k in syms}
        consts['o0'] = (0, hi)
        for fmt in fmts:
            p_fmt = prog
            if fmt == 'minhex':
                # gaps that are not made by .org are a recorded finding of minhex (hand:align-gap); keep them out of the
                # random minhex family so that everything else about the format stays checked
                p_fmt = [st for st in prog if st[0] not in ('align', 'mute', 'unmute')]
            S.append(PrettyShape(f'{fmt}:{bits}bit:{seed}:{i}', prog={'main.asm': p_fmt},
                                 cfgargs=dict(origin=Sym('o0', 0, hi), consts=consts, address_bits=bits),
                                 props=['C16'], binary=True, fill=Sym('wf', -300, 300), start=Sym('o0', 0, hi), pretty=fmt, width=48))
    # hand-written: muted region, include, zero-length lines
    hand = {
        'muted': [('data', '.byte', [C(1), ('lsb', V('v2'))]), ('mute',), ('label', 'm'), ('data', '.2byte', [L('m')]),
                  ('instr', 'nop', None), ('unmute',), ('data', '.byte', [C(9)])],
        'zero-length': [('zero', C(0)), ('instr', 'nop', None), ('fill', C(0), C(1)), ('data', '.byte', [('lsb', V('v2'))]),
                        ('zero', C(0))],
        'long-lines': [('data', '.byte', [C(k) for k in range(13)]), ('fill', C(7), ('lsb', V('v2'))), ('label', 'e')],
    }
    for name, prog in hand.items():
        for fmt in fmts:
            S.append(PrettyShape(f'{fmt}:hand:{name}', prog={'main.asm': prog},
                                 cfgargs=dict(origin=Sym('o0', 0, 0x7000), consts={'v2': c02.SYMS['v2'], 'o0': (0, 0x7000)}),
                                 props=['C16'], binary=True, fill=Sym('wf', -300, 300), start=Sym('o0', 0, 0x7000), pretty=fmt, width=48))
    S.append(PrettyShape('minhex:hand:align-gap', prog={'main.asm': [('instr', 'nop', None), ('align', C(8)), ('data', '.byte', [C(7)])]},
                         cfgargs=dict(origin=0, consts={}), props=['C16'], binary=True, fill=Sym('wf', -300, 300), start=0, pretty='minhex', width=48))
    for fmt in fmts:
        S.append(PrettyShape(f'{fmt}:hand:org-then-include', prog={
            'main.asm': [('label', 'a'), ('data', '.byte', [C(1), C(2)]), ('label', 'b'), ('instr', 'nop', None), ('label', 'c'),
                         ('org', ('+', V('o0'), C(0x20)), None), ('include', 'inc.asm'), ('data', '.byte', [C(9)])],
            'inc.asm': [('data', '.byte', [('lsb', V('v2')), C(7)]), ('instr', 'nop', None)]},
            cfgargs=dict(origin=Sym('o0', 0, 0x7000), consts={'v2': c02.SYMS['v2'], 'o0': (0, 0x7000)}),
            props=['C16'], binary=True, fill=Sym('wf', -300, 300), start=Sym('o0', 0, 0x7000), pretty=fmt, width=48))
    # a window that starts above the first bytes of the program (-s): inside the window image and formats still agree
    for fmt in fmts:
        if fmt == 'minhex':
            continue
        S.append(PrettyShape(f'{fmt}:hand:window-starts-above-first-bytes', prog={'main.asm': [
            ('data', '.byte', [C(0xBB), ('lsb', V('v2'))]), ('org', C(0x120), None), ('data', '.byte', [C(1), C(2), C(3)]),
            ('org', C(0x140), None), ('instr', 'nop', None), ('data', '.byte', [C(9)])]},
            cfgargs=dict(origin=0x100, consts={'v2': c02.SYMS['v2']}), props=['C16'], binary=True, fill=Sym('wf', -300, 300),
            start=Sym('ws', 0x11e, 0x122), pretty=fmt, width=48, window_cuts_the_program=True))
    # an origin set inside a muted region still places the unmuted bytes that follow it
    for fmt in fmts:
        S.append(PrettyShape(f'{fmt}:hand:org-in-muted-region', prog={'main.asm': [
            ('data', '.byte', [C(1), ('lsb', V('v2'))]), ('mute',), ('org', ('+', V('o0'), C(0x20)), None), ('unmute',),
            ('data', '.byte', [C(7), C(8)]), ('instr', 'nop', None), ('mute',), ('org', ('+', V('o0'), C(0x40)), None),
            ('label', 'm'), ('unmute',), ('data', '.2byte', [L('m')])]},
            cfgargs=dict(origin=Sym('o0', 0, 0x7000), consts={'v2': c02.SYMS['v2'], 'o0': (0, 0x7000)}),
            props=['C16'], binary=True, fill=Sym('wf', -300, 300), start=Sym('o0', 0, 0x7000), pretty=fmt, width=48))
    # bytes that come from the ISA configuration (predefined data blocks) are in the image, hence in every format
    for fmt in fmts:
        blocks = [('blk', Sym('ba', 0x110, 0x112), 3, 0x5A), ('blk2', 0x130, 18, Sym('bv', 0, 255))]
        org = 0x100
        if fmt == 'minhex':
            blocks, org = [('blk', 0, 2, Sym('bv', 0, 255))], 2      # minhex and gaps: see the recorded findings
        S.append(PrettyShape(f'{fmt}:hand:predefined-data', prog={
            'main.asm': [('data', '.byte', [C(1), ('lsb', V('v2'))]), ('instr', 'nop', None)]},
            cfgargs=dict(origin=org, consts={'v2': c02.SYMS['v2']}, data_blocks=blocks),
            props=['C16'], binary=True, fill=Sym('wf', -300, 300), start=0x100 if org == 0x100 else 0, pretty=fmt, width=48))
    for fmt in fmts:
        S.append(PrettyShape(f'{fmt}:hand:include', prog={
            'main.asm': [('data', '.byte', [C(1)]), ('include', 'inc.asm'), ('label', 'b'), ('data', '.2byte', [L('b'), L('i')])],
            'inc.asm': [('label', 'i'), ('instr', 'ld8', ('lsb', V('v2'))), ('instr', 'nop', None)]},
            cfgargs=dict(origin=Sym('o0', 0, 0x7000), consts={'v2': c02.SYMS['v2'], 'o0': (0, 0x7000)}),
            props=['C16'], binary=True, fill=Sym('wf', -300, 300), start=Sym('o0', 0, 0x7000), pretty=fmt, width=48))
    return S
