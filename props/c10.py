"""C10 - a macro assembles to exactly its expanded instruction sequence (PIPE, relational: macro vs hand expansion)."""
from __future__ import annotations

import z3

from sx import engine as E
from sx.harness import under, zv
from sx.pipe import PipeCase, Sym, Outcome
from sx.shims import STUBS  # noqa
from .instr import isa, code, arg, vrange
from .isa_templates import regs_set
from .pipe_common import PipeShape

ID = 'C10'
BUDGET_S = {'quick': 170, 'thorough': 3600}
SHAPE_WALL_S = {'quick': 100, 'thorough': 600}
FAMILY = ('PIPE, relational: the same program once with a macro invocation and once with the invocation replaced by its '
          'hand-written expansion, both through the real assembler in one symbolic run; macro definitions with 1..3 steps, '
          '2 variants, @ARG/@REG/@OP placeholders, a step that is not a whole number of bytes, steps with relative-address '
          'operands, backward and forward label operands; unfillable placeholders must be rejected; plus seeded random macros '
          '(1..3 steps over 9 instruction forms, placeholders drawn per operand kind) expanded by an independent textual expander')
BOUNDS = {'operand values': 'within and just outside the field range', 'origin': '0x100..0x7000',
          'opcode / operand codes': 'any value of the field', 'macro catalogue': 'hand-written (enumerated)'}
ASSUMPTIONS = ['the expansion of each catalogue entry is written by hand from the macro definition (placeholders replaced by '
               'argument text, register name, full operand text)',
               'a label attached to the invocation labels the first instruction of the expansion']


class PairShape(PipeShape):
    """params: config, macro_src, expanded_src (bodies placed between `pre:` and `post:`), expect"""

    def setup(self, symbolic):
        p = self.params
        self.cases = []
        for body in (p['macro_src'], p['expanded_src']):
            src = '.org o0\npre: nop\n' + body + '\npost: .byte LSB(post), BYTE1(post), 238\n'
            c = PipeCase(p['config'], {'main.asm': src}, start=Sym('o0', 0x100, 0x7000), want_lines=False)
            c.prepare()
            self.cases.append(c)
        self.case = self.cases[0]

    def teardown(self):
        for c in getattr(self, 'cases', []):
            c.cleanup()

    def expected_outcomes(self):
        return self.params.get('expect', ['ok/ok'])

    def run(self, env):
        self.declare(env)
        outs = []
        for c in self.cases:
            self.case = c
            outs.append(c.run_symbolic(env.ctx) if env.symbolic else self.run_concrete_api(env.model))
        self.case = self.cases[0]
        return (f'{outs[0].cls}/{outs[1].cls}', outs[0], outs[1])

    def judge(self, env, out):
        _, a, b = out
        for o in (a, b):
            if o.kind == 'exc' and o.msg.split(':')[0] in ('TypeError', 'AttributeError', 'NameError', 'HarnessError'):
                raise E.HarnessError(f'unexpected exception inside the run: {o.msg}')
        obl = [('C10.macro_is_accepted_iff_its_expansion_is', z3.BoolVal(a.cls == b.cls))]
        if a.cls == 'ok' and b.cls == 'ok':
            if a.image is None or b.image is None or len(a.image) != len(b.image):
                obl.append(('C10.macro_occupies_as_many_bytes_as_its_expansion', z3.BoolVal(False)))
            else:
                obl.append(('C10.macro_bytes_and_following_label_equal_expansion',
                            z3.And(*[zv(x) & E.bvval(0xff) == zv(y) & E.bvval(0xff) for x, y in zip(a.image, b.image)])))
        return obl

    def summarize(self, out, model):
        return {'kind': out[0], 'images': [None if o.image is None else [under(model, x) & 0xff for x in o.image] for o in out[1:]]}

    def cli_summary(self, model):
        res = []
        for c in self.cases:
            o = c.run_cli(model)
            res.append((o.cls, o.image))
        return {'kind': f'{res[0][0]}/{res[1][0]}', 'images': [res[0][1], res[1][1]]}

    def cli_agrees(self, summary, cli):
        return summary == cli

    def write_replay(self, model, dest):
        import os
        for n, c in zip(('macro', 'expanded'), self.cases):
            c.write_concrete(model, os.path.join(dest, n))

    def describe(self):
        return {'shape': self.sid, 'macro_program': self.params['macro_src'], 'expanded_program': self.params['expanded_src']}


class RejectMacro(PairShape):
    def expected_outcomes(self):
        return []

    def judge(self, env, out):
        return [('C10.unfillable_placeholder_is_rejected', z3.BoolVal(out[1].cls != 'ok'))]


def base_isa(consts):
    osets = {
        'regs': regs_set(3),
        'imm8': {'operand_values': {'n': {'type': 'numeric', 'bytecode': code('c_i8', 2), 'argument': arg(8, True)}}},
        'imm16': {'operand_values': {'n': {'type': 'numeric', 'bytecode': code('c_i16', 2), 'argument': arg(16, True, 'little')}}},
        'mem': {'operand_values': {'m': {'type': 'indirect_numeric', 'bytecode': code('c_m', 2), 'argument': arg(16, True)}}},
        'defm': {'operand_values': {'d': {'type': 'deferred_numeric', 'bytecode': code('c_d', 2), 'argument': arg(16, True)},
                                    'm': {'type': 'indirect_numeric', 'bytecode': code('c_m2', 2), 'argument': arg(16, True)}}},
        'isp': {'operand_values': {'i': {'type': 'indirect_register', 'register': 'ix', 'bytecode': code('c_sp', 2),
                                         'offset': {'size': 8, 'byte_align': True}}}},
        'rel': {'operand_values': {'r': {'type': 'relative_address', 'argument': arg(8, True, min=-128, max=127)}}},
        'rele': {'operand_values': {'r': {'type': 'relative_address', 'offset_from_instruction_end': True,
                                          'argument': arg(8, True, min=-128, max=127)}}},
    }
    ins = {
        'n4': {'bytecode': code('op_n4', 4)},
        'n12': {'bytecode': code('op_n12', 12)},
        'ldi': {'bytecode': code('op_ldi', 3), 'operands': {'count': 2, 'operand_sets': {'list': ['regs', 'imm8']}}},
        'ldw': {'bytecode': code('op_ldw', 6), 'operands': {'count': 2, 'operand_sets': {'list': ['regs', 'imm16']}}},
        'ldm': {'bytecode': code('op_ldm', 3), 'operands': {'count': 2, 'operand_sets': {'list': ['regs', 'mem']}}},
        'add': {'bytecode': code('op_add', 2), 'operands': {'count': 2, 'operand_sets': {'list': ['regs', 'regs']}}},
        'ldd': {'bytecode': code('op_ldd', 4), 'operands': {'count': 2, 'operand_sets': {'list': ['regs', 'defm']}}},
        'lds': {'bytecode': code('op_lds', 6), 'operands': {'count': 1, 'operand_sets': {'list': ['isp']}}},
        'jr': {'bytecode': code('op_jr', 8), 'operands': {'count': 1, 'operand_sets': {'list': ['rel']}}},
        'jre': {'bytecode': code('op_jre', 8), 'operands': {'count': 1, 'operand_sets': {'list': ['rele']}}},
    }
    macros = {
        'ldi2': [{'operands': {'count': 2, 'operand_sets': {'list': ['regs', 'imm8']}},
                  'instructions': ['ldi @REG(0), @ARG(1)', 'ldi @REG(0), @ARG(1) + 1']}],
        'jj': [{'operands': {'count': 1, 'operand_sets': {'list': ['imm16']}},
                'instructions': ['nop', 'jr @ARG(0)']}],
        'jje': [{'operands': {'count': 1, 'operand_sets': {'list': ['imm16']}},
                 'instructions': ['n4', 'jre @ARG(0)', 'jr @ARG(0)']}],
        # the offset of a register-indirect operand next to a tighter operator
        'ldo': [{'operands': {'count': 1, 'operand_sets': {'list': ['isp']}},
                 'instructions': ['lds [@REG(0) + 2*@ARG(0)]', 'lds [@REG(0) + 2*@ARG(0)+1]', 'lds @OP(0)']}],
        'nn': [{'instructions': ['n4', 'nop']}],
        'nnn': [{'instructions': ['n12', 'n4', 'n12']}],
        'swp': [{'operands': {'count': 2, 'operand_sets': {'list': ['regs', 'regs']}},
                 'instructions': ['add @OP(0), @OP(1)', 'add @OP(1), @OP(0)', 'add @OP(0), @OP(1)']}],
        'ld2': [{'operands': {'count': 2, 'operand_sets': {'list': ['regs', 'imm8']}},
                 'instructions': ['ldi @OP(0), @OP(1)', 'nop']},
                {'operands': {'count': 2, 'operand_sets': {'list': ['regs', 'mem']}},
                 'instructions': ['ldm @OP(0), @OP(1)', 'ldw @REG(0), @ARG(1)']}],
        # variants told apart by the operand-matching rules of instruction variants: specific operands, an `empty`
        # operand (counts towards `count`, consumes no text), different operand counts
        'mv': [{'operands': {'count': 2, 'specific_operands': {'impl': {'list': {
                    'n': {'type': 'numeric', 'argument': arg(8, True)}, 'e': {'type': 'empty'}}}}},
                'instructions': ['ldi ra, @ARG(0)']},
               {'operands': {'count': 1, 'operand_sets': {'list': ['regs']}}, 'instructions': ['add @REG(0), @REG(0)', 'nop']},
               {'operands': {'count': 2, 'operand_sets': {'list': ['regs', 'imm8']}}, 'instructions': ['ldi @REG(0), @ARG(1)', 'n4']},
               {'instructions': ['nop', 'nop']}],
        'sp': [{'operands': {'count': 1, 'specific_operands': {
                    'acc': {'list': {'r': {'type': 'register', 'register': 'ra'}}},
                    'mem': {'list': {'m': {'type': 'indirect_numeric', 'argument': arg(16, True)}}}}},
                'instructions': ['ldw rb, 7']},
               {'operands': {'count': 1, 'operand_sets': {'list': ['imm16']}}, 'instructions': ['ldw ra, @ARG(0)']}],
        # placeholders are replaced by the operand's *text*: precedence is that of the resulting text
        'dbl': [{'operands': {'count': 2, 'operand_sets': {'list': ['regs', 'imm8']}},
                 'instructions': ['ldi @REG(0), @ARG(1)*2', 'ldi @REG(0), 10-@ARG(1)', 'ldw @REG(0), @OP(1)*3']}],
        # @OP is the operand as written: `[[x]]` stays deferred, `[x]` stays indirect
        'ldd2': [{'operands': {'count': 2, 'operand_sets': {'list': ['regs', 'defm']}},
                  'instructions': ['ldd @OP(0), @OP(1)', 'ldd @REG(0), [[@ARG(1) + 2]]', 'ldd @REG(0), [@ARG(1)]']}],
        # a specific form first, a general form (that also takes the specific operand) second
        'inc2': [{'operands': {'count': 1, 'specific_operands': {'acc': {'list': {'r': {'type': 'register', 'register': 'ra'}}}}},
                  'instructions': ['add ra, ra']},
                 {'operands': {'count': 1, 'operand_sets': {'list': ['regs']}}, 'instructions': ['add @REG(0), rb', 'nop']}],
        'badarg': [{'operands': {'count': 1, 'operand_sets': {'list': ['regs']}}, 'instructions': ['ldi ra, @ARG(0)']}],
        'badreg': [{'operands': {'count': 1, 'operand_sets': {'list': ['imm8']}}, 'instructions': ['ldi @REG(0), 1']}],
        'badidx': [{'operands': {'count': 1, 'operand_sets': {'list': ['imm8']}}, 'instructions': ['ldi ra, @ARG(1)']}],
    }
    return isa(operand_sets=osets, instructions=ins, macros=macros, consts=consts)


CATALOGUE = [
    # (id, macro program, expanded program, consts, expected classes)
    ('two-steps-arg-reg', 'ldi2 rb, v1', 'ldi rb, v1\nldi rb, v1 + 1', {'v1': vrange(8)}, ['ok/ok', 'rejected/rejected']),
    ('two-steps-expression-arg', 'ldi2 ra, v1*2 - 1', 'ldi ra, v1*2 - 1\nldi ra, v1*2 - 1 + 1', {'v1': (-70, 140)},
     ['ok/ok', 'rejected/rejected']),
    ('relative-in-second-step-backward', 't: jj t', 't: nop\njr t', {}, ['ok/ok']),
    ('relative-in-second-step-forward', 'jj post', 'nop\njr post', {}, ['ok/ok']),
    ('relative-to-symbolic-target', 'jj o0 + v1', 'nop\njr o0 + v1', {'v1': (-140, 140)}, ['ok/ok', 'rejected/rejected']),
    ('relative-from-end-after-nibble-step', 't: jje t', 't: n4\njre t\njr t', {}, ['ok/ok']),
    ('relative-from-end-forward', 'jje post', 'n4\njre post\njr post', {}, ['ok/ok']),
    ('nibble-step-then-byte', 'nn', 'n4\nnop', {}, ['ok/ok']),
    ('three-odd-steps', 'nnn', 'n12\nn4\nn12', {}, ['ok/ok']),
    ('full-operand-text', 'swp ra, rb', 'add ra, rb\nadd rb, ra\nadd ra, rb', {}, ['ok/ok']),
    ('variant-1', 'ld2 ra, v1', 'ldi ra, v1\nnop', {'v1': vrange(8)}, ['ok/ok', 'rejected/rejected']),
    ('variant-2', 'ld2 rb, [v1]', 'ldm rb, [v1]\nldw rb, v1', {'v1': vrange(16)}, ['ok/ok', 'rejected/rejected']),
    ('variant-with-empty-operand', 'mv v1', 'ldi ra, v1', {'v1': vrange(8)}, ['ok/ok', 'rejected/rejected']),
    ('variant-by-count-1', 'mv rb', 'add rb, rb\nnop', {}, ['ok/ok']),
    ('variant-by-count-2', 'mv rb, v1', 'ldi rb, v1\nn4', {'v1': vrange(8)}, ['ok/ok', 'rejected/rejected']),
    ('variant-by-count-0', 'mv', 'nop\nnop', {}, ['ok/ok']),
    ('variant-specific-register', 'sp ra', 'ldw rb, 7', {}, ['ok/ok']),
    ('variant-specific-indirect', 'sp [v1]', 'ldw rb, 7', {'v1': vrange(16)}, ['ok/ok']),
    ('variant-after-specific', 'sp v1', 'ldw ra, v1', {'v1': vrange(16)}, ['ok/ok', 'rejected/rejected']),
    ('argument-text-next-to-tighter-operator', 'dbl ra, v1+1', 'ldi ra, v1+1*2\nldi ra, 10-v1+1\nldw ra, v1+1*3', {'v1': (-200, 300)},
     ['ok/ok', 'rejected/rejected']),
    ('argument-text-with-shift', 'dbl rb, v1 & 6', 'ldi rb, v1 & 6*2\nldi rb, 10-v1 & 6\nldw rb, v1 & 6*3', {'v1': (0, 255)}, ['ok/ok']),
    ('full-text-of-deferred-operand', 'ldd2 ra, [[v1]]', 'ldd ra, [[v1]]\nldd ra, [[v1 + 2]]\nldd ra, [v1]', {'v1': vrange(16)},
     ['ok/ok', 'rejected/rejected']),
    ('full-text-of-indirect-operand', 'ldd2 rb, [ v1 ]', 'ldd rb, [ v1 ]\nldd rb, [[v1 + 2]]\nldd rb, [v1]', {'v1': vrange(16)},
     ['ok/ok', 'rejected/rejected']),
    ('variant-choice-independent-of-earlier-invocations', 'inc2 rb\ninc2 ra\ninc2 rb\ninc2 ra',
     'add rb, rb\nnop\nadd ra, ra\nadd rb, rb\nnop\nadd ra, ra', {}, ['ok/ok']),
    ('indirect-register-positive-offset', 'ldo [ix+v1]', 'lds [ix + 2*v1]\nlds [ix + 2*v1+1]\nlds [ix+v1]', {'v1': (0, 140)},
     ['ok/ok', 'rejected/rejected']),
    ('indirect-register-positive-offset-number', 'ldo [ix + 3]', 'lds [ix + 2*3]\nlds [ix + 2*3+1]\nlds [ix + 3]', {}, ['ok/ok']),
    ('indirect-register-negative-offset', 'ldo [ix-v1]', 'lds [ix - 2*v1]\nlds [ix - 2*v1+1]\nlds [ix-v1]', {'v1': (0, 140)},
     ['ok/ok', 'rejected/rejected']),
    ('indirect-register-negative-offset-number', 'ldo [ix - 3]', 'lds [ix - 6]\nlds [ix - 5]\nlds [ix - 3]', {}, ['ok/ok']),
    ('indirect-register-no-offset', 'ldo [ix]', 'lds [ix]\nlds [ix + 1]\nlds [ix]', {}, ['ok/ok']),
    ('two-invocations', 'a1: jj a1\nnn\na2: jj a1', 'a1: nop\njr a1\nn4\nnop\na2: nop\njr a1', {}, ['ok/ok']),
    ('label-between-macros', 'nn\nmid: jj mid\nldi2 ra, LSB(mid)', 'n4\nnop\nmid: nop\njr mid\nldi ra, LSB(mid)\nldi ra, LSB(mid) + 1',
     {}, ['ok/ok', 'rejected/rejected']),
]
REJECTS = [('arg-of-register-operand', 'badarg ra'), ('reg-of-numeric-operand', 'badreg 5'), ('placeholder-index-out-of-range', 'badidx 5')]


def shapes(tier, seed):
    S = []
    for sid, m, x, cs, expect in CATALOGUE:
        S.append(PairShape(sid, config=base_isa(cs), macro_src=m, expanded_src=x, expect=expect))
    for sid, m in REJECTS:
        S.append(RejectMacro('reject:' + sid, config=base_isa({}), macro_src=m, expanded_src='nop'))
        # the same with every code of the ISA a fixed number (a code that finds its way into the step text is then text)
        from sx.pipe import materialize
        k = [0]

        def fixed(sym):
            if sym.name == 'o0':
                return sym
            k[0] += 1
            return min(sym.hi, max(sym.lo, k[0] % 4))
        S.append(RejectMacro('reject-fixed-codes:' + sid, config=materialize(base_isa({}), fixed), macro_src=m, expanded_src='nop'))
    return S + random_shapes(tier, seed)


# ---- seeded random macros: expansion by an independent textual expander written from the statement -----------------
def expand(step, operands):
    """operands: list of dicts {kind: reg|imm|mem, text, arg, reg}"""
    out = step
    for i, op in enumerate(operands):
        out = out.replace(f'@ARG({i})', op.get('arg') or '')
        out = out.replace(f'@REG({i})', op.get('reg') or '')
        out = out.replace(f'@OP({i})', op['text'])
    return out


def random_macro(rnd):
    import random as _r
    sigs = [(['regs', 'imm8'], ['reg', 'imm']), (['regs', 'mem'], ['reg', 'mem']), (['imm16'], ['imm']),
            (['regs', 'regs'], ['reg', 'reg']), ([], []), (['regs', 'imm16'], ['reg', 'imm'])]
    sets, kinds = rnd.choice(sigs)
    ops = []
    nv = 0
    for k in kinds:
        if k == 'reg':
            r = rnd.choice(['ra', 'rb'])
            ops.append({'kind': 'reg', 'text': r, 'reg': r})
        elif k == 'imm':
            nv += 1
            t = rnd.choice([f'v{nv}', f'v{nv} + 1', f'LSB(v{nv})', 'post', 'pre + 2'])
            ops.append({'kind': 'imm', 'text': t, 'arg': t})
        else:
            nv += 1
            t = rnd.choice([f'v{nv}', f'v{nv}+2', 'post'])
            ops.append({'kind': 'mem', 'text': f'[{t}]', 'arg': t})
    regs = [i for i, o in enumerate(ops) if o['kind'] == 'reg']
    nums = [i for i, o in enumerate(ops) if o['kind'] in ('imm', 'mem')]

    def reg_ph():
        if regs and rnd.random() < 0.8:
            i = rnd.choice(regs)
            return rnd.choice([f'@REG({i})', f'@OP({i})'])
        return rnd.choice(['ra', 'rb'])

    def num_ph(small=False):
        if nums and rnd.random() < 0.8:
            i = rnd.choice(nums)
            base = f'@ARG({i})'
            if ops[i]['kind'] == 'imm' and rnd.random() < 0.4:
                base = f'@OP({i})'
            return rnd.choice([base, base, f'{base} + 1', f'LSB({base})' if small else base, f'{base}*2', f'9-{base}'])
        return rnd.choice(['5', 'post', '$20'])

    def mem_ph():
        mems = [i for i, o in enumerate(ops) if o['kind'] == 'mem']
        if mems and rnd.random() < 0.6:
            return f'@OP({rnd.choice(mems)})'
        return f'[{num_ph()}]'
    steps = []
    for _ in range(rnd.randint(1, 3)):
        ins = rnd.choice(['n4', 'n12', 'nop', 'ldi', 'ldw', 'ldm', 'add', 'jr', 'jre'])
        if ins in ('n4', 'n12', 'nop'):
            steps.append(ins)
        elif ins == 'ldi':
            steps.append(f'ldi {reg_ph()}, {num_ph(small=True)}')
        elif ins == 'ldw':
            steps.append(f'ldw {reg_ph()}, {num_ph()}')
        elif ins == 'ldm':
            steps.append(f'ldm {reg_ph()}, {mem_ph()}')
        elif ins == 'add':
            steps.append(f'add {reg_ph()}, {reg_ph()}')
        else:
            steps.append(f'{ins} {num_ph()}')
    mdef = {'instructions': steps}
    if sets:
        mdef['operands'] = {'count': len(sets), 'operand_sets': {'list': sets}}
    invocation = 'mm' + (' ' + ', '.join(o['text'] for o in ops) if ops else '')
    expansion = '\n'.join(expand(s, ops) for s in steps)
    consts = {f'v{i}': rnd.choice([vrange(8), vrange(16), (0, 300)]) for i in range(1, nv + 1)}
    return mdef, invocation, expansion, consts


def random_shapes(tier, seed):
    import random
    rnd = random.Random(1000 + seed)
    S = []
    for i in range(40 if tier == 'quick' else 3000):
        mdef, inv, exp, consts = random_macro(rnd)
        cfg = base_isa(consts)
        cfg['macros'] = {'mm': [mdef]}
        label = rnd.random() < 0.4
        S.append(PairShape(f'rnd:{seed}:{i}:{inv} => {exp.replace(chr(10), " / ")}', config=cfg,
                           macro_src=('lab: ' if label else '') + inv, expanded_src=('lab: ' if label else '') + exp, expect=[]))
    return S
