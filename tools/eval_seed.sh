#!/bin/bash
# usage: tools/eval_seed.sh <dir with patch.diff + demo.sh|demo_test.py> <tier> <ID> [<ID>...]
# confirms the seeded change myself in a scratch worktree (tests pass, demo fails with / passes without), then runs
# the given checks against /repo with the patch applied (and restores /repo).
D=$(readlink -f "$1"); TIER=$2; shift 2
W=$(mktemp -d /tmp/evalseed.XXXX)
git -C /repo worktree add -q --detach "$W/wt" HEAD || exit 3
( cd "$W/wt" && SRC="$W/wt/src" bash "$D/demo.sh" >/dev/null 2>&1; echo "demo_without_patch_rc=$?" )
( cd "$W/wt" && git apply "$D/patch.diff" && PYTHONPATH="$W/wt/src" /venv/bin/python -m pytest -q -p no:cacheprovider 2>&1 | tail -1 | sed 's/^/tests_with_patch: /' )
( cd "$W/wt" && SRC="$W/wt/src" bash "$D/demo.sh" >/dev/null 2>&1; echo "demo_with_patch_rc=$?" )
git -C /repo worktree remove --force "$W/wt"; rm -rf "$W"
/verif/tools/try_patch.sh "$D/patch.diff" $TIER "$@"
