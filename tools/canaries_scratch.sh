#!/bin/bash
# like canaries.sh, but each fix is reverted in its own scratch worktree (VERIF_REPO), several at a time; /repo untouched.
# usage: tools/canaries_scratch.sh [tier] [parallel] [regex over '<commit> <property>' lines, default all]
TIER=${1:-quick}; PAR=${2:-3}; FILTER=${3:-.}
cd /verif
python3 - <<'PY' > /tmp/canary_list.txt
import json,re
k=json.load(open('/verif/known_findings.json'))
seen={}
for f in k['fixed']:
    m=re.match(r'fixed: property=(C\d+) ([0-9a-f]+) ',f)
    seen.setdefault(m.group(2),[]).append(m.group(1))
rows=[(c,p) for c,ps in seen.items() for p in sorted(set(ps))]
# order so that checks of the same property are far apart (they share replays/<ID>)
rows.sort(key=lambda r: r[1])
step=7
for s in range(step):
    for r in rows[s::step]: print(r[0], r[1])
PY
one() {
  commit=$1; id=$2
  W=$(mktemp -d /tmp/canary.XXXX)
  git -C /repo worktree add -q --detach "$W/wt" HEAD || { echo "== $commit $id: worktree failed"; return; }
  if ! (cd "$W/wt" && git show $commit -- src | git apply -R 2>/dev/null); then
    echo "== revert $commit -> $id: NOAPPLY (later changes touch the same lines)"
  else
    t=$(cd "$W/wt" && PYTHONPATH="$W/wt/src" /venv/bin/python -m pytest -q -p no:cacheprovider -x 2>&1 | tail -1)
    out=$(VERIF_REPO="$W/wt" VERIF_JOBS=6 ./check $id --tier $TIER 2>&1); rc=$?
    nv=$(echo "$out" | grep -c "^VIOLATION property=$id")
    if [ $rc -eq 1 ] && [ $nv -gt 0 ]; then v=DETECTED; elif [ $rc -eq 0 ]; then v=MISSED; else v="BROKEN(rc=$rc)"; fi
    echo "== revert $commit ($(git -C /repo log -1 --format=%s $commit | cut -c1-60)) -> $id $v violations=$nv tests: $t"
  fi
  git -C /repo worktree remove --force "$W/wt" 2>/dev/null; rm -rf "$W"
}
export -f one; export TIER
grep -E "$FILTER" /tmp/canary_list.txt | xargs -P $PAR -L1 bash -c 'one $0 $1'
rm -f /tmp/canary_list.txt
