#!/bin/bash
# usage: tools/try_patch.sh [-R] <patch> <tier> <ID> [<ID> ...]
# applies a patch to /repo's working tree, runs the test suite and the given checks, restores /repo.
# prints one line per check: DETECTED (rc=1 + VIOLATION) / MISSED (rc=0) / BROKEN (rc=3 or other)
REV=""; if [ "$1" = "-R" ]; then REV="-R"; shift; fi
PATCH=$(readlink -f "$1"); TIER=$2; shift 2
cd /repo || exit 3
if [ -n "$(git status --porcelain)" ]; then echo "repo not clean"; exit 3; fi
git apply $REV "$PATCH" || { echo "patch does not apply"; exit 3; }
trap 'git -C /repo checkout -- . ; git -C /repo clean -fdq src' EXIT
t=$(/venv/bin/python -m pytest -q -p no:cacheprovider -x 2>&1 | tail -1)
echo "tests: $t"
for id in "$@"; do
  s=$(date +%s); out=$(cd /verif && ./check $id --tier $TIER 2>&1); rc=$?; e=$(date +%s)
  nv=$(echo "$out" | grep -c "^VIOLATION property=$id")
  if [ $rc -eq 1 ] && [ $nv -gt 0 ]; then verdict=DETECTED; elif [ $rc -eq 0 ]; then verdict=MISSED; else verdict="BROKEN(rc=$rc)"; fi
  echo "$id $verdict violations=$nv $((e-s))s :: $(echo "$out" | grep -m1 -A1 '^VIOLATION' | tr '\n' ' ' | cut -c1-300)"
  [ "$verdict" != DETECTED ] && echo "$out" | grep -E "HARNESS|inconclusive" | head -3 | cut -c1-300
done
