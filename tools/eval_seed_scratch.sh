#!/bin/bash
# usage: tools/eval_seed_scratch.sh <dir with patch.diff + demo.sh> <tier> <ID> [<ID>...]
# like eval_seed.sh, but never touches /repo: the change is confirmed and the checks are run against a scratch worktree
# of /repo's HEAD (VERIF_REPO), so several changes can be evaluated at the same time.
D=$(readlink -f "$1"); TIER=$2; shift 2
HERE="$(cd "$(dirname "$0")/.." && pwd)"
W=$(mktemp -d /tmp/evalseed.XXXX)
git -C /repo worktree add -q --detach "$W/wt" HEAD || exit 3
trap 'git -C /repo worktree remove --force "$W/wt" 2>/dev/null; rm -rf "$W"' EXIT
( cd "$W/wt" && SRC="$W/wt/src" bash "$D/demo.sh" >/dev/null 2>&1; echo "demo_without_patch_rc=$?" )
( cd "$W/wt" && git apply "$D/patch.diff" && PYTHONPATH="$W/wt/src" /venv/bin/python -m pytest -q -p no:cacheprovider 2>&1 | tail -1 | sed 's/^/tests_with_patch: /' )
( cd "$W/wt" && SRC="$W/wt/src" bash "$D/demo.sh" >/dev/null 2>&1; echo "demo_with_patch_rc=$?" )
for id in "$@"; do
  s=$(date +%s); out=$(cd "$HERE" && VERIF_REPO="$W/wt" ./check $id --tier $TIER 2>&1); rc=$?; e=$(date +%s)
  nv=$(echo "$out" | grep -c "^VIOLATION property=$id")
  if [ $rc -eq 1 ] && [ $nv -gt 0 ]; then verdict=DETECTED; elif [ $rc -eq 0 ]; then verdict=MISSED; else verdict="BROKEN(rc=$rc)"; fi
  echo "$id $verdict violations=$nv $((e-s))s :: $(echo "$out" | grep -m1 -A1 '^VIOLATION' | tr '\n' ' ' | cut -c1-300)"
  [ "$verdict" != DETECTED ] && echo "$out" | grep -E "HARNESS|inconclusive" | head -3 | cut -c1-300
done
