#!/bin/bash
# run every registered quick check with the given seeds; print one line each
cd "$(dirname "$0")/.."
for sd in "${@:-0}"; do
  for p in $(python3 -c "import json;print(' '.join(c['property_id'] for c in json.load(open('MANIFEST.json'))['checks']))"); do
    s=$(date +%s); out=$(VERIF_SEED=$sd ./check $p --tier quick 2>&1); rc=$?; e=$(date +%s)
    echo "seed=$sd $p rc=$rc $((e-s))s :: $(echo "$out" | tail -1 | cut -c1-260)"
    [ $rc -ne 0 ] && echo "$out" | grep -E "VIOLATION|HARNESS|inconclusive" | head -5 | cut -c1-400
  done
done
