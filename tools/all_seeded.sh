#!/bin/bash
# every stored seeded change (seeded/<ID>[bc]/patch.diff) applied to /repo in turn and run against the check of its
# property; prints DETECTED / MISSED / BROKEN per change.   usage: tools/all_seeded.sh [tier] [dir-glob]
TIER=${1:-quick}; GLOB=${2:-*}
cd /verif
for d in seeded/$GLOB/; do
  n=$(basename "$d"); id=$(echo "$n" | cut -c1-3)
  echo "== $n: $(tools/try_patch.sh "$d/patch.diff" $TIER $id 2>&1 | grep -E "^$id |patch does not|repo not clean" | cut -c1-160)"
done
