#!/bin/bash
# Mutant canaries: every `fix:` commit of /repo reverted on top of the current tree re-introduces a genuine historical
# defect; the check of the property it is filed under (known_findings.json "fixed") must report it.
# usage: tools/canaries.sh [tier]      (not part of quick/thorough; run by hand)
TIER=${1:-quick}
cd /verif
python3 - <<'PY' > /tmp/canary_list.txt
import json,re
k=json.load(open('/verif/known_findings.json'))
seen={}
for f in k['fixed']:
    m=re.match(r'fixed: property=(C\d+) ([0-9a-f]+) ',f)
    seen.setdefault(m.group(2),[]).append(m.group(1))
for c,ps in seen.items(): print(c,' '.join(sorted(set(ps))))
PY
while read -r commit props; do
  git -C /repo show $commit -- src > /tmp/canary_$commit.diff
  echo "== revert $commit ($(git -C /repo log -1 --format=%s $commit | cut -c1-70)) -> $props"
  tools/try_patch.sh -R /tmp/canary_$commit.diff $TIER $props 2>&1 | sed 's/^/   /'
  rm -f /tmp/canary_$commit.diff
done < /tmp/canary_list.txt
rm -f /tmp/canary_list.txt
