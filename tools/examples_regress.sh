#!/bin/bash
# sanity tool (not a registered check): assemble every bundled example with the pinned baseline and with the
# current tree; report differences in exit status / image. Used to review `fix:` commits for regressions.
set -u
BASE=${1:-0035ecd}; CUR=${2:-/repo}   # CUR: the tree to compare (default /repo)
W=$(mktemp -d /tmp/exreg.XXXX)
git -C /repo worktree add -q --detach "$W/base" "$BASE" || exit 3
run() { # tree out asm cfg
  (cd "$(dirname "$3")" && PYTHONPATH="$1/src" PYTHONDONTWRITEBYTECODE=1 timeout 120 /venv/bin/python -B -m bespokeasm compile "$3" -c "$4" -o "$2" -I "$(dirname "$3")" >"$2.log" 2>&1; echo $? > "$2.rc")
}
n=0; d=0
while read -r asm cfg; do
  n=$((n+1)); b=$(basename "$asm")
  run "$W/base" "$W/$b.base.bin" "$asm" "$cfg"; run "$CUR" "$W/$b.cur.bin" "$asm" "$cfg"
  if ! cmp -s "$W/$b.base.bin.rc" "$W/$b.cur.bin.rc" || ! cmp -s "$W/$b.base.bin" "$W/$b.cur.bin" 2>/dev/null; then
    d=$((d+1)); echo "DIFF $asm: rc $(cat $W/$b.base.bin.rc) -> $(cat $W/$b.cur.bin.rc); sizes $(stat -c%s $W/$b.base.bin 2>/dev/null) -> $(stat -c%s $W/$b.cur.bin 2>/dev/null)"; tail -2 "$W/$b.cur.bin.log"
  fi
done <<LIST
/repo/examples/ben-eater-sap1/counting-loop.sap1 /repo/examples/ben-eater-sap1/eater-sap1-isa.yaml
/repo/examples/ben-eater-sap1/multiplication.sap1 /repo/examples/ben-eater-sap1/eater-sap1-isa.yaml
/repo/examples/kenbak-1/led-bouncer.kb1 /repo/examples/kenbak-1/kenbak-1-isa.yaml
/repo/examples/kenbak-1/led-chaser.kb1 /repo/examples/kenbak-1/kenbak-1-isa.yaml
$(for f in /repo/examples/slu4-minimal-64/software/*.min64; do echo "$f /repo/examples/slu4-minimal-64/slu4-minimal-64.yaml"; done)
$(for f in /repo/examples/slu4-minimal-64x4/software/*.min64x4; do echo "$f /repo/examples/slu4-minimal-64x4/slu4-minimal-64x4.yaml"; done)
$(for f in /repo/examples/slu4-minimal-cpu/*.min-asm; do echo "$f /repo/examples/slu4-minimal-cpu/slu4-minimal-cpu.yaml"; done)
LIST
echo "examples=$n differing=$d"
git -C /repo worktree remove --force "$W/base"; rm -rf "$W"
