#!/bin/bash
# like all_seeded.sh, but each stored change is applied in its own scratch worktree of /repo's HEAD and the check is
# pointed at it (VERIF_REPO), so /repo is never touched and several changes are evaluated at once.
# usage: tools/all_seeded_scratch.sh [tier] [dir-glob] [parallel]
TIER=${1:-quick}; GLOB=${2:-*}; PAR=${3:-3}
cd /verif
one() {
  d=$1; n=$(basename "$d"); id=$(echo "$n" | cut -c1-3)
  W=$(mktemp -d /tmp/allseed.XXXX)
  git -C /repo worktree add -q --detach "$W/wt" HEAD || { echo "== $n: worktree failed"; return; }
  if ! (cd "$W/wt" && git apply "/verif/$d/patch.diff" 2>/dev/null); then
    echo "== $n: NOAPPLY (the patch was written against an earlier tree)"
  elif (cd "$W/wt" && SRC="$W/wt/src" bash "/verif/$d/demo.sh" >/dev/null 2>&1); then
    echo "== $n: NEUTRALISED (with the change applied to the current tree its own demonstration passes: a later fix removed the code path it relied on)"
  else
    out=$(VERIF_REPO="$W/wt" VERIF_JOBS=6 ./check $id --tier $TIER 2>&1); rc=$?
    nv=$(echo "$out" | grep -c "^VIOLATION property=$id")
    if [ $rc -eq 1 ] && [ $nv -gt 0 ]; then v=DETECTED; elif [ $rc -eq 0 ]; then v=MISSED; else v="BROKEN(rc=$rc)"; fi
    echo "== $n: $id $v violations=$nv :: $(echo "$out" | grep -m1 -A1 '^VIOLATION' | tr '\n' ' ' | cut -c1-160)"
  fi
  git -C /repo worktree remove --force "$W/wt" 2>/dev/null; rm -rf "$W"
}
export -f one; export TIER
# order by round, so that checks running at the same time belong to different properties (they share replays/<ID>)
ls -d seeded/$GLOB/ | sed 's#/$##' | awk '{n=$0; sub(/.*\//,"",n); print substr(n,4) "_" n " " $0}' | sort | cut -d' ' -f2 | xargs -P $PAR -I{} bash -c 'one {}'
