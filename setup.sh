#!/bin/bash
# offline: install the z3 wheel next to the framework (the repo's own venv supplies the repo's dependencies)
set -e
HERE="$(cd "$(dirname "$0")" && pwd)"
if [ ! -d "$HERE/.deps/z3" ]; then
  PIP_NO_INDEX=1 /venv/bin/python -m pip install -q --no-index --find-links /opt/veriftools/wheels --target "$HERE/.deps" z3-solver
fi
PYTHONPATH="$HERE/.deps" /venv/bin/python -c "import z3; print('z3', z3.get_version_string())"
