#!/bin/bash
# offline: install the z3 wheel next to the framework (the repo's own venv supplies the repo's dependencies),
# then run the proxy self-test (every proxy operation against CPython) and stamp the engine hash
set -e
HERE="$(cd "$(dirname "$0")" && pwd)"
if [ ! -d "$HERE/.deps/z3" ]; then
  PIP_NO_INDEX=1 /venv/bin/python -m pip install -q --no-index --find-links /opt/veriftools/wheels --target "$HERE/.deps" z3-solver
fi
export PYTHONPATH="$HERE:$HERE/.deps" PYTHONDONTWRITEBYTECODE=1
/venv/bin/python -c "import z3; print('z3', z3.get_version_string())"
cd "$HERE"
want=$(sha256sum sx/engine.py | cut -d' ' -f1)
if ! grep -q "$want" .deps/selftest.json 2>/dev/null; then
  /venv/bin/python -B -m sx.selftest .deps/selftest.json
fi
